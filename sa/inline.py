"""AST inliner: a copy of a function in which calls to private helpers are replaced by the helper's body.

Rules are written against one function ("the writer", "the handler", "the setter").  Extracting a few lines into a
private helper does not change behaviour, so the analyses should not see a difference either: they run on the flattened
function.  Only helpers whose call target is unambiguous are inlined:

* `self._h(...)`, `cls._h(...)`, `Class._h(...)` where `_h` is a *private* method (leading underscore, not dunder)
  found along the MRO of the analysed class and not overridden in any subclass;
* `_f(...)` where `_f` is a private module-level function of the same source file;
* `self._p` where `_p` is a private read-only property whose getter is one `return <expr>`;
* optionally further names given by the caller (`also=`), e.g. public helpers that a rule knows to be plain extractions.

Statement-level calls (`self._h(x)`, `v = self._h(x)`, `a, b = self._h(x)`, `return self._h(x)`, `yield from self._h(x)`)
are replaced by the body with `return` eliminated structurally (guard clauses become if/else); helpers that return from
inside a loop or a try block are left alone.  Expression-level calls are replaced only when the helper is a single
`return <expr>`.  Helper locals are renamed (`name__h1`) so that they cannot capture the caller's names.
"""

from __future__ import annotations

import ast
import copy
from typing import Dict, Iterable, List, Optional, Set, Tuple

from .model import AnchorMissing, ClassInfo, Repo, SourceFile, norm


# public functions that rules look up by name (their calls are facts the rules read): never read through as "small helpers"
ANCHOR_FUNCTIONS = {"convert_value", "read_sunvox_file", "write_chunk", "chunks", "raise_or_warn_controller_value_validation",
                    "override_raise_controller_value_errors", "enumname"}


class CannotInline(Exception):
    pass


def _is_private(name: str) -> bool:
    return name.startswith("_") and not (name.startswith("__") and name.endswith("__"))


def _body(fn: ast.FunctionDef) -> List[ast.stmt]:
    b = list(fn.body)
    if b and isinstance(b[0], ast.Expr) and isinstance(b[0].value, ast.Constant) and isinstance(b[0].value.value, str):
        b = b[1:]
    return b


class _DeAnn(ast.NodeTransformer):
    """`x: T = v` is `x = v`; a bare `x: T` declares nothing at run time (inside functions)."""
    def visit_AnnAssign(self, node):
        if node.value is None:
            return ast.copy_location(ast.Pass(), node)
        return ast.copy_location(ast.Assign(targets=[node.target], value=node.value), node)

    def visit_ClassDef(self, node):
        return node


def _deannotate_stmts(stmts: List[ast.stmt]) -> List[ast.stmt]:
    if not any(isinstance(n, ast.AnnAssign) for st in stmts for n in ast.walk(st)):
        return stmts
    out = [_DeAnn().visit(st) for st in stmts]
    for st in out:
        ast.fix_missing_locations(st)
    return out


def deannotate(fn: ast.FunctionDef) -> ast.FunctionDef:
    if not any(isinstance(n, (ast.AnnAssign, ast.Assert)) for n in ast.walk(fn)):
        return fn
    new = copy.deepcopy(fn)
    new.body = _deannotate_stmts(new.body)
    if any(isinstance(n, ast.Assert) for n in ast.walk(new)):
        # `assert C` is read as the assumption C on the paths that continue (it adds no state change); the rules decide what the
        # function does when it completes, and the pinned tree has no assert that guards behaviour
        class A(ast.NodeTransformer):
            def visit_Assert(self, node):
                if any(isinstance(x, (ast.NamedExpr, ast.Yield, ast.Await)) for x in ast.walk(node)):
                    return node
                return ast.copy_location(ast.Pass(), node)
        new = A().visit(new)
        ast.fix_missing_locations(new)
    return new


def _decos(fn: ast.FunctionDef) -> List[str]:
    out = []
    for d in fn.decorator_list:
        try:
            out.append(ast.unparse(d))
        except Exception:
            out.append("?")
    return out


def _memo_only(fn: ast.FunctionDef) -> bool:
    """no decorators besides memoisers (`@lru_cache(maxsize=None)`, `@functools.cache`): the function reads as its body"""
    for d in fn.decorator_list:
        t = d.func if isinstance(d, ast.Call) else d
        if not isinstance(t, (ast.Name, ast.Attribute)) or norm(t).split(".")[-1] not in ("lru_cache", "cache"):
            return False
    return True


class _Rename(ast.NodeTransformer):
    def __init__(self, mapping: Dict[str, ast.expr]):
        self.mapping = mapping

    def visit_Name(self, node):
        if node.id in self.mapping:
            new = copy.deepcopy(self.mapping[node.id])
            if isinstance(new, ast.Name):
                new.ctx = node.ctx
            return ast.copy_location(new, node)
        return node

    # nested scopes: parameters of lambdas / comprehension targets shadow
    def visit_Lambda(self, node):
        bound = {a.arg for a in node.args.args}
        saved = {k: self.mapping.pop(k) for k in list(self.mapping) if k in bound}
        try:
            return self.generic_visit(node)
        finally:
            self.mapping.update(saved)


def _is_generator(fn: ast.FunctionDef) -> bool:
    for n in ast.walk(fn):
        if isinstance(n, (ast.Yield, ast.YieldFrom)):
            # not inside a nested def / lambda
            return True
    return False


def _has_return_in_loop_or_try(stmts: List[ast.stmt]) -> bool:
    def rec(ss, inside):
        for st in ss:
            if isinstance(st, ast.Return) and inside:
                return True
            if isinstance(st, (ast.For, ast.While, ast.AsyncFor)):
                if rec(st.body, True) or rec(st.orelse, True):
                    return True
            elif isinstance(st, ast.Try):
                if rec(st.body, inside) or any(rec(h.body, inside) for h in st.handlers) or rec(st.orelse, inside) or rec(st.finalbody, True):
                    return True
            elif isinstance(st, ast.If):
                if rec(st.body, inside) or rec(st.orelse, inside):
                    return True
            elif isinstance(st, (ast.With, ast.AsyncWith)):
                if rec(st.body, inside):
                    return True
        return False
    return rec(stmts, False)


def _final_loop_returns_to_breaks(body: List[ast.stmt]) -> List[ast.stmt]:
    """When the last statement of a helper is a loop (no else part) and nothing is wanted from its `return`s, a `return` directly
    in that loop (not in an inner loop, try or with) leaves the loop and thereby the helper: it reads as `break`."""
    if not body or not isinstance(body[-1], (ast.For, ast.While)) or body[-1].orelse:
        return body
    lp = copy.deepcopy(body[-1])
    ok = [True]

    def rec(stmts):
        out = []
        for st in stmts:
            if isinstance(st, ast.Return):
                out.append(ast.copy_location(ast.Break(), st))
                continue
            if isinstance(st, ast.If):
                st.body = rec(st.body)
                st.orelse = rec(st.orelse)
            elif any(isinstance(x, ast.Return) for x in ast.walk(st)) and not isinstance(st, (ast.FunctionDef, ast.ClassDef)):
                ok[0] = False
            out.append(st)
        return out
    lp.body = rec(lp.body)
    if not ok[0]:
        return body
    return list(body[:-1]) + [lp]


def _ends_in_raise(stmts: List[ast.stmt]) -> bool:
    return bool(stmts) and isinstance(stmts[-1], ast.Raise)


def _eliminate_returns(stmts: List[ast.stmt], result) -> Tuple[List[ast.stmt], bool]:
    """Rewrite so that no `return` remains: (`new statements`, `always returns`).  `result` = name receiving the value,
    or a list of target expressions when every return value is a tuple of that length."""
    out: List[ast.stmt] = []
    for i, st in enumerate(stmts):
        if isinstance(st, ast.Return):
            if isinstance(result, list):
                elts = st.value.elts if isinstance(st.value, ast.Tuple) else []
                for t, v in zip(result, elts):
                    tt = copy.deepcopy(t)
                    for n in ast.walk(tt):
                        if hasattr(n, "ctx") and n is tt:
                            n.ctx = ast.Store()
                    out.append(ast.copy_location(ast.Assign(targets=[tt], value=v), st))
            elif result is not None:
                val = st.value if st.value is not None else ast.Constant(value=None)
                a = ast.Assign(targets=[ast.Name(id=result, ctx=ast.Store())], value=val)
                out.append(ast.copy_location(a, st))
            elif st.value is not None and not isinstance(st.value, ast.Constant):
                out.append(ast.copy_location(ast.Expr(value=st.value), st))
            return out, True
        if isinstance(st, ast.If):
            b, br = _eliminate_returns(st.body, result)
            o, orr = _eliminate_returns(st.orelse, result)
            rest = stmts[i + 1:]
            new = copy.copy(st)
            if br and orr:
                new.body, new.orelse = b or [ast.Pass()], o
                out.append(new)
                return out, True
            if br or orr:
                r, rr = _eliminate_returns(rest, result)
                if br:
                    new.body = b or [ast.Pass()]
                    new.orelse = o + r
                else:
                    new.body = (b + r) or [ast.Pass()]
                    new.orelse = o
                out.append(new)
                return out, rr
            new.body, new.orelse = b or [ast.Pass()], o
            out.append(new)
            continue
        if isinstance(st, (ast.With, ast.AsyncWith)):
            b, br = _eliminate_returns(st.body, result)
            new = copy.copy(st)
            new.body = b or [ast.Pass()]
            out.append(new)
            if br:
                return out, True
            continue
        if isinstance(st, ast.Try):
            b, br = _eliminate_returns(st.body, result)
            o, orr = _eliminate_returns(st.orelse, result)
            new = copy.copy(st)
            new.body = b or [ast.Pass()]
            new.orelse = o
            hs = []
            all_h = True
            for h in st.handlers:
                hb, hr = _eliminate_returns(h.body, result)
                nh = copy.copy(h)
                nh.body = hb or [ast.Pass()]
                hs.append(nh)
                all_h = all_h and (hr or _ends_in_raise(hb))
            new.handlers = hs
            any_return = br or orr or any(isinstance(x, ast.Return) for h in st.handlers for x in ast.walk(h))
            if br and not st.orelse and not st.finalbody and not all_h:
                # try: ...; return X  /  except E: <falls through>  /  REST      — the statements after the try run only on the
                # handler paths, so they move to the end of every handler that falls through
                r, rr = _eliminate_returns(stmts[i + 1:], result)
                every = True
                for nh, h in zip(hs, st.handlers):
                    hb, hr = _eliminate_returns(h.body, result)
                    if hr or _ends_in_raise(hb):
                        continue
                    nh.body = (hb + copy.deepcopy(r)) or [ast.Pass()]
                    every = every and rr
                out.append(new)
                return out, every
            every_handler_returns = bool(st.handlers) and all(_eliminate_returns(h.body, result)[1] for h in st.handlers)
            if not br and not orr and every_handler_returns and not st.finalbody and stmts[i + 1:]:
                # try: X / except E: return …  / REST      — REST runs only when X did not raise: it is the `else` of the try
                r, rr = _eliminate_returns(stmts[i + 1:], result)
                new.orelse = list(new.orelse) + r
                out.append(new)
                return out, rr
            out.append(new)
            if (br or orr) and all_h:
                return out, True
            if any_return and not ((br or orr) and all_h):
                raise CannotInline("conditional return inside try")
            continue
        out.append(st)
    return out, False


class Inliner:
    def __init__(self, repo: Repo, ci: Optional[ClassInfo], sf: Optional[SourceFile] = None, depth: int = 3,
                 also: Iterable[str] = (), exclude: Iterable[str] = (), exact: bool = False,
                 receivers: Optional[Dict[str, ClassInfo]] = None):
        self.receivers = dict(receivers or {})      # text of a receiver expression -> its class (`module` -> Module in Project.chunks)
        self.repo = repo
        self.ci = ci
        self.sf = sf or (ci.file if ci else None)
        self.depth = depth
        self.also = set(also)
        self.exclude = set(exclude)
        self.exact = exact            # the receiver is an instance of exactly `ci`: overriding subclasses do not matter
        self.counter = 0
        self.caller_names: Set[str] = set()
        self.inlined: List[str] = []
        self._subclasses_cache: Optional[List[ClassInfo]] = None

    # ------------------------------------------------------------------ resolution
    def _overridden(self, owner: ClassInfo, name: str) -> bool:
        if self.exact:
            return False
        if self._subclasses_cache is None:
            self._subclasses_cache = list(self.repo.all_classes())
        for k in self._subclasses_cache:
            if k is owner:
                continue
            if name in k.methods or name in k.getters:
                try:
                    if owner in self.repo.mro(k):
                        return True
                except AnchorMissing:
                    continue
        return False

    def _module_functions(self) -> Dict[str, ast.FunctionDef]:
        if self.sf is None:
            return {}
        return {st.name: st for st in self.sf.tree.body if isinstance(st, ast.FunctionDef)}

    def resolve_call(self, call: ast.Call) -> Optional[Tuple[ast.FunctionDef, bool]]:
        """(helper, bound?) — bound = first parameter is the receiver."""
        f = call.func
        if isinstance(f, ast.Name):
            # a function defined inside the function being flattened (a local closure)
            loc = getattr(self, "_local_defs", {}).get(f.id)
            if loc is not None and f.id not in self.exclude:
                return loc, False
            if (_is_private(f.id) or f.id in self.also) and f.id not in self.exclude:
                fn = self._module_functions().get(f.id)
                if fn is not None:
                    return fn, False
                # a private helper imported from another module of the package: its own module's constants are written in
                imp = self.sf.imports.get(f.id) if self.sf is not None else None
                if imp and imp[1] and imp[0] in self.repo.by_mod:
                    other = self.repo.by_mod[imp[0]]
                    for st in other.tree.body:
                        if isinstance(st, ast.FunctionDef) and st.name == imp[1]:
                            return self._foreign(st, other), False
            elif f.id not in self.exclude and self.sf is not None:
                # a small public helper defined in this module (`encode_midi_in(always, channel)`): at most three statements, straight-line
                own = self._module_functions().get(f.id)
                if f.id in ANCHOR_FUNCTIONS:
                    return None            # a function the rules analyse under its own name stays a call
                if own is not None and _memo_only(own) and not _is_generator(own) and not self._imported_elsewhere(f.id) \
                        and not any(isinstance(n, (ast.Global, ast.Nonlocal)) for n in ast.walk(own)):
                    # a public-looking helper that no other module of the package imports is a helper of this module, whatever its size
                    return own, False
                if own is not None and _memo_only(own) and len(_body(own)) <= 5 and not _is_generator(own) \
                        and not any(isinstance(n, (ast.With, ast.Try, ast.For, ast.While, ast.Global, ast.Nonlocal)) for n in ast.walk(own)):
                    return own, False
                # a small public helper of the package imported by name (`decode_cstring(data)`): at most three statements, no decorators
                imp = self.sf.imports.get(f.id)
                if imp and imp[1] and imp[0] in self.repo.by_mod and imp[0].startswith("rv."):
                    other = self.repo.by_mod[imp[0]]
                    for st in other.tree.body:
                        if isinstance(st, ast.FunctionDef) and st.name == imp[1] and _memo_only(st) and len(_body(st)) <= 5 \
                                and not _is_generator(st) and not any(isinstance(n, (ast.With, ast.Try, ast.For, ast.While, ast.Global)) for n in ast.walk(st)):
                            return self._foreign(st, other), False
            return None
        if isinstance(f, ast.Attribute) and not f.attr.startswith("__") and isinstance(f.value, (ast.Name, ast.Attribute)) \
                and norm(f.value) not in self.receivers and norm(f.value) not in ("self", "cls") and f.attr not in self.exclude:
            # a method of a record constant (`_LEVEL = _BitField(shift=0, mask=31)` at class / module level, NamedTuple or dataclass with
            # small methods): `self._LEVEL.extract(w)` / `field = self._LEVEL; field.extract(w)` reads as the method's body
            k = self._record_class_of(f.value)
            if k is not None and f.attr in k.methods and not _decos(k.methods[f.attr]) and not _is_generator(k.methods[f.attr]):
                fn = k.methods[f.attr]
                if self.sf is not None and k.file is not self.sf:
                    fn = self._foreign(fn, k.file)
                return fn, True
        if isinstance(f, ast.Attribute) and not f.attr.startswith("__") and f.attr not in self.exclude:
            # a method of a record built in place (`MidiInWord(always, channel).to_word()`), or an alternative constructor of a record
            # class (`SyncFlags.from_word(w)`, a classmethod): small straight-line methods of NamedTuple / dataclass records.  The
            # arguments of the construction must be simple (they are written at every use of a field).
            rk = None
            is_cls = False
            if isinstance(f.value, ast.Call) and isinstance(f.value.func, (ast.Name, ast.Attribute)) and not f.value.keywords \
                    and all(isinstance(a_, (ast.Name, ast.Attribute, ast.Constant)) for a_ in f.value.args):
                try:
                    if record_fields(self.repo, self.ci, self.sf, f.value.func):
                        rk = self.repo.class_of_expr(f.value.func, self.ci, self.sf)
                except Exception:
                    rk = None
            elif isinstance(f.value, ast.Name) and f.value.id[:1].isupper():
                try:
                    if record_fields(self.repo, self.ci, self.sf, f.value):
                        rk, is_cls = self.repo.class_of_expr(f.value, self.ci, self.sf), True
                except Exception:
                    rk = None
            if rk is not None and f.attr in rk.methods:
                m_ = rk.methods.raw[f.attr] if hasattr(rk.methods, "raw") and f.attr in getattr(rk.methods, "raw", {}) else rk.methods[f.attr]
                d_ = _decos(m_)
                if ((not is_cls and not d_) or (is_cls and d_ == ["classmethod"])) and len(_body(m_)) <= 6 and not _is_generator(m_) \
                        and not any(isinstance(n, (ast.With, ast.Try, ast.For, ast.While, ast.Global, ast.Nonlocal)) for n in ast.walk(m_)):
                    if self.sf is not None and rk.file is not self.sf:
                        m_ = self._foreign(m_, rk.file)
                    return m_, True
        if isinstance(f, ast.Attribute) and norm(f.value) in self.receivers:
            # a method of another object whose class is known to the caller of the inliner (the module in a project's loop)
            k = self.receivers[norm(f.value)]
            name = f.attr
            if name in self.exclude or name in ("iff_chunks", "specialized_iff_chunks", "chunks", "get_raw", "set_raw", "attached"):
                return None
            r = self.repo.lookup(k, name)
            if r is None or r[1] != "method":
                return None
            owner, fn = r[0], r[2]
            saved, self.exact = self.exact, False
            try:
                if self._overridden(owner, name):
                    return None
            finally:
                self.exact = saved
            d = _decos(fn)
            if "staticmethod" in d:
                return fn, False
            if not _is_generator(fn) and not _is_private(name) and name not in self.also:
                # public non-generator methods of the other object stay calls, except a small straight-line one that is used as a
                # statement (`self.drawn_waveform.load_module_chunk(chunk)`): a loader the other class keeps for its owner
                small = len(_body(fn)) <= 4 and not d and not any(isinstance(n, (ast.With, ast.Try, ast.For, ast.While, ast.Global, ast.Return, ast.If))
                                                                  for n in ast.walk(fn))
                # … or a one-expression query (`def attached_controller_names(self): return [n for n, c in … if c.attached(self)]`)
                getter = len(_body(fn)) == 1 and isinstance(_body(fn)[0], ast.Return) and _body(fn)[0].value is not None and not d \
                    and not any(isinstance(n, (ast.Yield, ast.YieldFrom, ast.Await, ast.Lambda)) for n in ast.walk(fn))
                if not small and not getter:
                    return None
            if self.sf is not None and owner.file is not self.sf:
                fn = self._foreign(fn, owner.file)
            return fn, True
        if isinstance(f, ast.Attribute) and self.ci is not None:
            name = f.attr
            if not (_is_private(name) or name in self.also) and name not in self.exclude and name not in ANCHOR_FUNCTIONS \
                    and norm(f.value) in ("self", "cls", self.ci.name, "type(self)", "self.__class__"):
                # a small public *static* method of the class (`self.decode_uint32(data)`): a function kept in the class namespace
                r0 = self.repo.lookup(self.ci, name)
                if r0 is not None and r0[1] == "method" and _decos(r0[2]) == ["staticmethod"] and len(_body(r0[2])) <= 5 and not _is_generator(r0[2]) \
                        and not any(isinstance(n, (ast.With, ast.Try, ast.For, ast.While, ast.Global, ast.Nonlocal)) for n in ast.walk(r0[2])) \
                        and not self._overridden(r0[0], name):
                    fn0 = r0[2]
                    if self.sf is not None and r0[0].file is not self.sf:
                        fn0 = self._foreign(fn0, r0[0].file)
                    return fn0, False
            if not (_is_private(name) or name in self.also) or name in self.exclude:
                return None
            recv = norm(f.value)
            recv_ok = recv in ("self", "cls", self.ci.name, self.ci.qualname, "type(self)", "self.__class__") or \
                recv.startswith("super(")
            # Outer.Inner._h  /  Outer._h from a nested class
            if not recv_ok:
                k = self.repo.class_of_expr(f.value, self.ci, self.sf)
                if k is None:
                    return None
                try:
                    if k is not self.ci and k not in self.repo.mro(self.ci):
                        # a helper of the enclosing class called as Outer._h(...)
                        if name in k.methods and "staticmethod" in _decos(k.methods[name]):
                            return k.methods[name], False
                        return None
                except AnchorMissing:
                    return None
            r = self.repo.lookup(self.ci, name)
            if r is None or r[1] != "method":
                return None
            owner, fn = r[0], r[2]
            if self._overridden(owner, name):
                return None
            d = _decos(fn)
            if "staticmethod" in d:
                return fn, False
            return fn, True
        return None

    def _imported_elsewhere(self, name: str) -> bool:
        """some other module of the package imports `name` from this module (or the module star-imports / is the package API)."""
        if self.sf is None:
            return True
        cache = self.repo.__dict__.setdefault("_imported_elsewhere", {})
        key = (self.sf.modname, name)
        if key not in cache:
            hit = False
            for other in self.repo.files.values():
                if other is self.sf:
                    continue
                for nm, imp in other.imports.items():
                    if imp and imp[0] == self.sf.modname and (imp[1] == name or imp[1] in ("*",)):
                        hit = True
                # attribute access through the module object: `module.name`
                if not hit and any(isinstance(n, ast.Attribute) and n.attr == name and isinstance(n.value, ast.Name)
                                   and other.imports.get(n.value.id, (None, None))[0] in (self.sf.modname, self.sf.modname.rsplit(".", 1)[0]) for n in ast.walk(other.tree)):
                    hit = True
                if hit:
                    break
            cache[key] = hit
        return cache[key]

    def _record_class_of(self, e: ast.expr) -> Optional[ClassInfo]:
        """The record class (NamedTuple / dataclass with annotated fields) of which `e` — a class-level or module-level constant, or a
        local bound once to one — is an instance built with constant arguments."""
        ctor = record_constant(self.repo, self.ci, self.sf, e, getattr(self, "_root", None))
        if ctor is None:
            # a local bound once to a record built in place from simple values (`word = MidiInWord(self.a, self.b)`)
            root = getattr(self, "_root", None)
            if isinstance(e, ast.Name) and root is not None:
                from .packed import single_defs
                try:
                    d0 = single_defs(root).get(e.id)
                except Exception:
                    d0 = None
                if isinstance(d0, ast.Call) and isinstance(d0.func, (ast.Name, ast.Attribute)) and not d0.keywords \
                        and all(isinstance(a_, (ast.Name, ast.Attribute, ast.Constant)) for a_ in d0.args):
                    try:
                        if record_fields(self.repo, self.ci, self.sf, d0.func):
                            return self.repo.class_of_expr(d0.func, self.ci, self.sf)
                    except Exception:
                        return None
            return None
        return self.repo.class_of_expr(ctor.func, self.ci, self.sf)

    def _foreign(self, fn: ast.FunctionDef, other: SourceFile) -> ast.FunctionDef:
        """A helper of another module, with that module's struct constants and foldable module-level names written in (they
        would not resolve in the caller's module)."""
        cache = self.__dict__.setdefault("_foreign_cache", {})
        key = (other.rel, fn.name)
        if key in cache:
            return cache[key]
        try:
            new = desugar_structs(self.repo, None, other, fn)
        except Exception:
            new = copy.deepcopy(fn)
        bound = {a.arg for a in new.args.args} | {n.id for n in ast.walk(new) if isinstance(n, ast.Name) and isinstance(n.ctx, (ast.Store, ast.Del))}
        repo = self.repo
        # pure one-expression functions of that module called by name are written out (their names mean nothing to the caller)
        mod_fns = {st.name: st for st in other.tree.body if isinstance(st, ast.FunctionDef) and not st.decorator_list and not _is_generator(st)}
        outer = self
        depth_left = self.__dict__.get("_foreign_depth", 0)

        class F(ast.NodeTransformer):
            def visit_Call(self, node):
                node = self.generic_visit(node)
                if isinstance(node.func, ast.Name) and node.func.id in mod_fns and node.func.id not in bound and node.func.id != fn.name \
                        and not node.keywords and not any(isinstance(a, ast.Starred) for a in node.args) and depth_left < 3:
                    callee = mod_fns[node.func.id]
                    params = [a.arg for a in callee.args.args]
                    if len(params) == len(node.args) and not callee.args.vararg and not callee.args.kwarg and not callee.args.kwonlyargs \
                            and all(isinstance(a, (ast.Name, ast.Constant, ast.Attribute)) for a in node.args):
                        outer.__dict__["_foreign_depth"] = depth_left + 1
                        try:
                            e = as_expression(outer._foreign(callee, other))
                        finally:
                            outer.__dict__["_foreign_depth"] = depth_left
                        if e is not None and not any(isinstance(x, (ast.Lambda, ast.ListComp, ast.GeneratorExp, ast.SetComp, ast.DictComp)) for x in ast.walk(e)):
                            return ast.copy_location(_Rename(dict(zip(params, node.args))).visit(copy.deepcopy(e)), node)
                return node
        if mod_fns:
            new = F().visit(new)

        class K(ast.NodeTransformer):
            def visit_Name(self, node):
                if isinstance(node.ctx, ast.Load) and node.id not in bound:
                    try:
                        v = repo.fold(node, sf=other)
                        if isinstance(v, (int, str, bytes, bool)) or v is None:
                            return ast.copy_location(ast.Constant(value=v), node)
                    except Exception:
                        pass
                return node
        new = K().visit(new)
        ast.fix_missing_locations(new)
        cache[key] = new
        return new

    def resolve_property(self, node: ast.Attribute) -> Optional[ast.expr]:
        if self.ci is None or norm(node.value) != "self" or not isinstance(node.ctx, ast.Load):
            return None
        if not (_is_private(node.attr) or node.attr in self.also) or node.attr in self.exclude:
            return None
        r = self.repo.lookup(self.ci, node.attr)
        if r is not None and r[1] == "assign" and self.exact and isinstance(r[2], ast.Constant):
            return copy.deepcopy(r[2])          # a class-level constant that replaces the property on exactly this class
        if r is None or r[1] != "property" or r[2][0] is None or r[2][1] is not None:
            return None
        if self._overridden(r[0], node.attr):
            return None
        b = _body(r[2][0])
        if len(b) == 1 and isinstance(b[0], ast.Return) and b[0].value is not None:
            return copy.deepcopy(b[0].value)
        if not any(isinstance(n, (ast.Call, ast.Yield, ast.Await)) for st in b for n in ast.walk(st)):
            e = as_expression(r[2][0])           # `if self.min < 0: return self.min` / `return 0`  as one conditional expression
            if e is not None:
                return e
        return None

    # ------------------------------------------------------------------ instantiation
    def _bind(self, fn: ast.FunctionDef, call: ast.Call, bound: bool) -> Tuple[List[ast.stmt], Dict[str, ast.expr]]:
        """Parameter bindings: simple arguments are substituted, others are evaluated once into a temporary."""
        a = fn.args
        if a.vararg or a.posonlyargs:
            raise CannotInline("varargs")
        if a.kwarg is not None:
            # `def h(self, cls, data, **opts): … cls(self.f, **opts)`: the extra keywords of the call are forwarded where `**opts`
            # is written, provided the dictionary is used in no other way (see _instantiate)
            kwn = a.kwarg.arg
            uses = [n for st in fn.body for n in ast.walk(st) if isinstance(n, ast.Name) and n.id == kwn]
            forwards = [k for st in fn.body for c in ast.walk(st) if isinstance(c, ast.Call) for k in c.keywords if k.arg is None
                        and isinstance(k.value, ast.Name) and k.value.id == kwn]
            if len(uses) != len(forwards) or not forwards:
                raise CannotInline("keyword dictionary used other than by forwarding")
        params = [p.arg for p in a.args]
        mapping: Dict[str, ast.expr] = {}
        pre: List[ast.stmt] = []
        if bound:
            if not params:
                raise CannotInline("no receiver parameter")
            recv = call.func.value if isinstance(call.func, ast.Attribute) else ast.Name(id="self", ctx=ast.Load())
            if norm(recv).startswith("super("):
                recv = ast.Name(id="self", ctx=ast.Load())
            # a classmethod reached through an instance: class attributes resolve the same way through `self`
            mapping[params[0]] = recv
            params = params[1:]
        if any(isinstance(x, ast.Starred) for x in call.args) or any(k.arg is None for k in call.keywords):
            raise CannotInline("star arguments")
        if len(call.args) > len(params):
            raise CannotInline("too many arguments")
        given: Dict[str, ast.expr] = {}
        for p, v in zip(params, call.args):
            given[p] = v
        extra_kw: List[ast.keyword] = []
        for k in call.keywords:
            if k.arg not in params and k.arg not in [x.arg for x in a.kwonlyargs]:
                if a.kwarg is not None and isinstance(k.value, (ast.Name, ast.Constant, ast.Attribute)):
                    extra_kw.append(k)
                    continue
                raise CannotInline(f"unknown keyword {k.arg}")
            given[k.arg] = k.value
        self._forwarded_kw = (a.kwarg.arg, extra_kw) if a.kwarg is not None else None
        defaults = dict(zip([p.arg for p in a.args][len(a.args) - len(a.defaults):], a.defaults))
        defaults.update({p.arg: d for p, d in zip(a.kwonlyargs, a.kw_defaults) if d is not None})
        assigned_in_body = {n.id for st in fn.body for n in ast.walk(st) if isinstance(n, ast.Name) and isinstance(n.ctx, (ast.Store, ast.Del))}
        for p in params + [x.arg for x in a.kwonlyargs]:
            v = given.get(p, defaults.get(p))
            if v is None:
                raise CannotInline(f"missing argument {p}")
            if p not in given and not isinstance(v, (ast.Constant, ast.Name, ast.Attribute)):
                # a default that is evaluated once at definition time (e.g. a mutable `{}`): inlining would re-evaluate it per call
                raise CannotInline(f"default of {p} is not a constant")
            simple = isinstance(v, (ast.Name, ast.Constant)) or (isinstance(v, ast.Attribute) and norm(v).count("(") == 0)
            if simple and p not in assigned_in_body:
                mapping[p] = v
            else:
                tmp = f"{p}__a{self.counter}"
                pre.append(ast.Assign(targets=[ast.Name(id=tmp, ctx=ast.Store())], value=copy.deepcopy(v)))
                mapping[p] = ast.Name(id=tmp, ctx=ast.Load())
        return pre, mapping

    def _instantiate(self, fn: ast.FunctionDef, call: ast.Call, bound: bool, result: Optional[str]) -> List[ast.stmt]:
        self.counter += 1
        tag = f"__h{self.counter}"
        pre, mapping = self._bind(fn, call, bound)
        body = _deannotate_stmts(copy.deepcopy(_body(fn)))
        body = [st for st in body if not (isinstance(st, ast.Assert) and not any(isinstance(x, (ast.NamedExpr, ast.Yield, ast.Await)) for x in ast.walk(st)))] or [ast.Pass()]
        fwd = getattr(self, "_forwarded_kw", None)
        if fwd is not None:
            kwn, extra = fwd
            for st in body:
                for c in ast.walk(st):
                    if isinstance(c, ast.Call) and any(k.arg is None and isinstance(k.value, ast.Name) and k.value.id == kwn for k in c.keywords):
                        c.keywords = [k for k in c.keywords if not (k.arg is None and isinstance(k.value, ast.Name) and k.value.id == kwn)] + \
                            [copy.deepcopy(k) for k in extra]
            self._forwarded_kw = None
        if any(isinstance(n, ast.Nonlocal) for st in body for n in ast.walk(st)):
            raise CannotInline("nonlocal")
        if any(isinstance(n, ast.Global) for st in body for n in ast.walk(st)):
            if bound:
                raise CannotInline("global in a method")
            # a module-level helper: its globals are the caller's globals; the declaration itself is dropped
            gl = {nm for st in body for n in ast.walk(st) if isinstance(n, ast.Global) for nm in n.names}
            body = [st for st in body if not isinstance(st, ast.Global)]
            self._globals = getattr(self, "_globals", set()) | gl
        if result is None and _has_return_in_loop_or_try(body):
            body = _final_loop_returns_to_breaks(body)
        if _has_return_in_loop_or_try(body):
            raise CannotInline("return inside a loop or try")
        # rename helper locals
        locals_ = set()
        for st in body:
            for n in ast.walk(st):
                if isinstance(n, ast.Name) and isinstance(n.ctx, (ast.Store, ast.Del)):
                    locals_.add(n.id)
        for name in locals_:
            if name in getattr(self, "_globals", set()):
                continue
            if name not in mapping and name in self.caller_names:
                mapping[name] = ast.Name(id=name + tag, ctx=ast.Load())
        self.caller_names |= locals_
        ren = _Rename(mapping)
        body = [ren.visit(st) for st in body]
        body, _ = _eliminate_returns(body, result)
        out = pre + body
        for st in out:
            ast.copy_location(st, call)
            for n in ast.walk(st):
                if hasattr(n, "lineno") and not hasattr(n, "_src_lineno"):
                    n._src_lineno = n.lineno          # where the text really is (comments above it still describe it)
                elif not hasattr(n, "lineno"):
                    n._synthetic = True
                if not hasattr(n, "lineno") or True:
                    n.lineno = getattr(call, "lineno", 1)
                    n.end_lineno = getattr(call, "end_lineno", n.lineno)
                    n.col_offset = getattr(call, "col_offset", 0)
                    n.end_col_offset = getattr(call, "end_col_offset", 0)
        self.inlined.append(fn.name)
        return out

    # ------------------------------------------------------------------ statements
    def _stmt(self, st: ast.stmt, depth: int) -> List[ast.stmt]:
        """Possibly several statements replacing `st`."""
        if depth <= 0:
            return [st]
        # with self._helper(...) as f: BODY    reads as    f__ctx = self._helper(...);  with f__ctx as f: BODY
        if isinstance(st, ast.With) and len(st.items) == 1 and isinstance(st.items[0].context_expr, ast.Call) \
                and self.resolve_call(st.items[0].context_expr) is not None and not _is_generator(self.resolve_call(st.items[0].context_expr)[0]):
            self.counter += 1
            tmp = f"__ctx{self.counter}"
            pre = ast.copy_location(ast.Assign(targets=[ast.Name(id=tmp, ctx=ast.Store())], value=st.items[0].context_expr), st)
            new_with = copy.copy(st)
            new_with.items = [ast.withitem(context_expr=ast.Name(id=tmp, ctx=ast.Load()), optional_vars=st.items[0].optional_vars)]
            ast.fix_missing_locations(pre)
            return self._stmt(pre, depth) + self._stmt(new_with, depth)
        # with self._cm(...) as x: BODY   with a private @contextmanager generator that yields once at its top level (or once in the
        # body of a top-level try/finally): the generator's statements before the yield, `x = <yielded>`, BODY, the statements after
        # (which run only when BODY completes; a `finally` part also when it raises)
        if isinstance(st, ast.With) and len(st.items) == 1 and isinstance(st.items[0].context_expr, ast.Call):
            r = self.resolve_call(st.items[0].context_expr)
            if r is not None and _is_generator(r[0]) and any(norm(d).split(".")[-1] == "contextmanager" for d in r[0].decorator_list):
                fn_cm, bound = r
                body_cm = _body(fn_cm)

                def top_yields(stmts):
                    return [x for x in stmts if isinstance(x, ast.Expr) and isinstance(x.value, ast.Yield)]
                all_y = [n for n in ast.walk(fn_cm) if isinstance(n, (ast.Yield, ast.YieldFrom))]
                tries = [x for x in body_cm if isinstance(x, ast.Try) and not x.handlers and not x.orelse and len(top_yields(x.body)) == 1]
                simple = len(all_y) == 1 and len(top_yields(body_cm)) == 1
                in_try = len(all_y) == 1 and len(tries) == 1 and not top_yields(body_cm)
                if (simple or in_try) and not any(isinstance(n, ast.Return) for n in ast.walk(fn_cm) if n is not fn_cm):
                    try:
                        inst = self._instantiate(fn_cm, st.items[0].context_expr, bound, None)
                        tgt = st.items[0].optional_vars
                        inner_body = list(st.body)

                        def splice(stmts):
                            out = []
                            for x in stmts:
                                if isinstance(x, ast.Expr) and isinstance(x.value, ast.Yield):
                                    if tgt is not None and x.value.value is not None:
                                        a_ = ast.Assign(targets=[copy.deepcopy(tgt)], value=x.value.value)
                                        ast.copy_location(a_, st)
                                        out.append(a_)
                                    out.extend(inner_body)
                                elif isinstance(x, ast.Try) and in_try and any(isinstance(y, ast.Expr) and isinstance(y.value, ast.Yield) for y in x.body):
                                    x.body = splice(x.body)
                                    out.append(x)
                                else:
                                    out.append(x)
                            return out
                        new_stmts = splice(inst)
                        for x in new_stmts:
                            ast.fix_missing_locations(x)
                        return self._block(new_stmts, depth - 1)
                    except CannotInline:
                        pass
        call = None
        mode = None
        if isinstance(st, ast.Expr) and isinstance(st.value, ast.Call):
            call, mode = st.value, "expr"
        elif isinstance(st, ast.Expr) and isinstance(st.value, ast.YieldFrom) and isinstance(st.value.value, ast.Call):
            call, mode = st.value.value, "yieldfrom"
        elif isinstance(st, ast.Assign) and isinstance(st.value, ast.Call):
            call, mode = st.value, "assign"
        elif isinstance(st, ast.Assign) and isinstance(st.value, ast.YieldFrom) and isinstance(st.value.value, ast.Call):
            call, mode = st.value.value, "assign_yieldfrom"       # x = yield from self._gen(...): the generator's return value
        elif isinstance(st, ast.Return) and isinstance(st.value, ast.Call):
            call, mode = st.value, "return"
        if call is not None:
            r = self.resolve_call(call)
            if r is not None:
                fn, bound = r
                gen = _is_generator(fn)
                try:
                    if mode == "yieldfrom" and gen:
                        new = self._instantiate(fn, call, bound, None)
                        return self._block(new, depth - 1)
                    if mode == "expr" and not gen:
                        new = self._instantiate(fn, call, bound, None)
                        return self._block(new, depth - 1)
                    if mode == "assign_yieldfrom" and gen:
                        res = f"__ret{self.counter + 1}"
                        new = self._instantiate(fn, call, bound, res)
                        tail = ast.Assign(targets=st.targets, value=ast.Name(id=res, ctx=ast.Load()))
                        ast.copy_location(tail, st)
                        ast.fix_missing_locations(tail)
                        return self._block(new, depth - 1) + [tail]
                    if mode == "assign" and not gen and len(st.targets) == 1 and isinstance(st.targets[0], ast.Tuple):
                        n_t = len(st.targets[0].elts)
                        rets = [r for r in ast.walk(fn) if isinstance(r, ast.Return)]
                        if rets and all(isinstance(r.value, ast.Tuple) and len(r.value.elts) == n_t for r in rets) \
                                and not any(isinstance(e, ast.Starred) for e in st.targets[0].elts):
                            new = self._instantiate(fn, call, bound, list(st.targets[0].elts))
                            return self._block(new, depth - 1)
                    if mode in ("assign", "return") and not gen:
                        single = _body(fn)
                        if not (len(single) == 1 and isinstance(single[0], ast.Return)):
                            res = f"__ret{self.counter + 1}"
                            new = self._instantiate(fn, call, bound, res)
                            tail: ast.stmt
                            if mode == "assign":
                                tail = ast.Assign(targets=st.targets, value=ast.Name(id=res, ctx=ast.Load()))
                            else:
                                tail = ast.Return(value=ast.Name(id=res, ctx=ast.Load()))
                            ast.copy_location(tail, st)
                            ast.fix_missing_locations(tail)
                            return self._block(new, depth - 1) + [tail]
                except CannotInline:
                    pass
        # … b"".join(self._gen(...)) … with a private generator helper: the pieces are concatenated into a local first
        if isinstance(st, (ast.Assign, ast.Expr, ast.Return, ast.AugAssign)) and st.value is not None:
            joins = [c for c in ast.walk(st.value) if isinstance(c, ast.Call) and isinstance(c.func, ast.Attribute) and c.func.attr == "join"
                     and isinstance(c.func.value, ast.Constant) and c.func.value.value == b"" and len(c.args) == 1 and not c.keywords
                     and isinstance(c.args[0], ast.Call)]
            if len(joins) == 1 and not any(isinstance(x, (ast.Lambda, ast.ListComp, ast.GeneratorExp, ast.SetComp, ast.DictComp, ast.IfExp, ast.BoolOp))
                                           for x in ast.walk(st.value)):
                r = self.resolve_call(joins[0].args[0])
                if r is not None and _is_generator(r[0]):
                    self.counter += 1
                    jv, ev = f"__j{self.counter}", f"__e{self.counter}"
                    init = ast.Assign(targets=[ast.Name(id=jv, ctx=ast.Store())], value=ast.Constant(value=b""))
                    loop = ast.For(target=ast.Name(id=ev, ctx=ast.Store()), iter=joins[0].args[0],
                                   body=[ast.AugAssign(target=ast.Name(id=jv, ctx=ast.Store()), op=ast.Add(), value=ast.Name(id=ev, ctx=ast.Load()))], orelse=[])
                    target_join = joins[0]

                    class J(ast.NodeTransformer):
                        def visit_Call(self, node):
                            if node is target_join:
                                return ast.copy_location(ast.Name(id=jv, ctx=ast.Load()), node)
                            return self.generic_visit(node)
                    st2 = copy.copy(st)
                    st2.value = J().visit(st.value)
                    for x in (init, loop):
                        ast.copy_location(x, st)
                        ast.fix_missing_locations(x)
                    return self._block([init, loop, st2], depth)
        # X.extend(self._gen(...)) with a private generator helper: one append per generated element
        if isinstance(st, ast.Expr) and isinstance(st.value, ast.Call) and isinstance(st.value.func, ast.Attribute) and st.value.func.attr == "extend" \
                and len(st.value.args) == 1 and not st.value.keywords and isinstance(st.value.args[0], ast.Call):
            r = self.resolve_call(st.value.args[0])
            if r is not None and _is_generator(r[0]) and isinstance(st.value.func.value, (ast.Name, ast.Attribute)):
                self.counter += 1
                ev = f"__e{self.counter}"
                app = ast.Expr(value=ast.Call(func=ast.Attribute(value=copy.deepcopy(st.value.func.value), attr="append", ctx=ast.Load()),
                                              args=[ast.Name(id=ev, ctx=ast.Load())], keywords=[]))
                loop = ast.For(target=ast.Name(id=ev, ctx=ast.Store()), iter=st.value.args[0], body=[app], orelse=[])
                ast.copy_location(loop, st)
                ast.fix_missing_locations(loop)
                st = loop
        # X.extend(E for x in XS [if c]): one append per element of XS
        if isinstance(st, ast.Expr) and isinstance(st.value, ast.Call) and isinstance(st.value.func, ast.Attribute) and st.value.func.attr == "extend" \
                and len(st.value.args) == 1 and not st.value.keywords and isinstance(st.value.args[0], (ast.GeneratorExp, ast.ListComp)) \
                and isinstance(st.value.func.value, (ast.Name, ast.Attribute)) and len(st.value.args[0].generators) == 1 \
                and not st.value.args[0].generators[0].is_async and not isinstance(st.value.args[0].elt, ast.Constant) \
                and not (isinstance(st.value.args[0].generators[0].iter, ast.Call) and norm(st.value.args[0].generators[0].iter.func).split(".")[-1] == "iter_unpack"):
            comp = st.value.args[0]
            g0 = comp.generators[0]
            app = ast.Expr(value=ast.Call(func=ast.Attribute(value=copy.deepcopy(st.value.func.value), attr="append", ctx=ast.Load()), args=[comp.elt], keywords=[]))
            body2: List[ast.stmt] = [app]
            for cond in reversed(g0.ifs):
                body2 = [ast.If(test=cond, body=body2, orelse=[])]
            loop = ast.For(target=g0.target, iter=g0.iter, body=body2, orelse=[])
            ast.copy_location(loop, st)
            ast.fix_missing_locations(loop)
            return self._stmt(loop, depth)
        # D.update((k, v) for x in XS [if c]): one item store per element of XS
        if isinstance(st, ast.Expr) and isinstance(st.value, ast.Call) and isinstance(st.value.func, ast.Attribute) and st.value.func.attr == "update" \
                and len(st.value.args) == 1 and not st.value.keywords and isinstance(st.value.args[0], (ast.GeneratorExp, ast.ListComp)) \
                and isinstance(st.value.func.value, (ast.Name, ast.Attribute)) and len(st.value.args[0].generators) == 1 \
                and isinstance(st.value.args[0].elt, ast.Tuple) and len(st.value.args[0].elt.elts) == 2 and not st.value.args[0].generators[0].is_async:
            comp = st.value.args[0]
            g0 = comp.generators[0]
            store = ast.Assign(targets=[ast.Subscript(value=copy.deepcopy(st.value.func.value), slice=comp.elt.elts[0], ctx=ast.Store())], value=comp.elt.elts[1])
            body: List[ast.stmt] = [store]
            for cond in reversed(g0.ifs):
                body = [ast.If(test=cond, body=body, orelse=[])]
            loop = ast.For(target=g0.target, iter=g0.iter, body=body, orelse=[])
            ast.copy_location(loop, st)
            ast.fix_missing_locations(loop)
            return self._stmt(loop, depth)
        # D.update(self._gen(...)) with a private generator of (key, value) pairs: one item store per generated pair
        if isinstance(st, ast.Expr) and isinstance(st.value, ast.Call) and isinstance(st.value.func, ast.Attribute) and st.value.func.attr == "update" \
                and len(st.value.args) == 1 and not st.value.keywords and isinstance(st.value.args[0], ast.Call) \
                and isinstance(st.value.func.value, (ast.Name, ast.Attribute)):
            r = self.resolve_call(st.value.args[0])
            if r is not None and _is_generator(r[0]) and all(
                    isinstance(y.value, ast.Tuple) and len(y.value.elts) == 2 for y in ast.walk(r[0]) if isinstance(y, ast.Yield)) \
                    and not any(isinstance(y, ast.YieldFrom) for y in ast.walk(r[0])):
                self.counter += 1
                kv, vv = f"__k{self.counter}", f"__v{self.counter}"
                store = ast.Assign(targets=[ast.Subscript(value=copy.deepcopy(st.value.func.value), slice=ast.Name(id=kv, ctx=ast.Load()), ctx=ast.Store())],
                                   value=ast.Name(id=vv, ctx=ast.Load()))
                loop = ast.For(target=ast.Tuple(elts=[ast.Name(id=kv, ctx=ast.Store()), ast.Name(id=vv, ctx=ast.Store())], ctx=ast.Store()),
                               iter=st.value.args[0], body=[store], orelse=[])
                ast.copy_location(loop, st)
                ast.fix_missing_locations(loop)
                st = loop
        # for T in self._gen(...): BODY   with a private generator helper: the helper's body with `yield E` -> `T = E; BODY`
        if isinstance(st, ast.For) and not st.orelse and isinstance(st.iter, ast.Call):
            r = self.resolve_call(st.iter)
            if r is not None and _is_generator(r[0]) and any(isinstance(n, ast.Continue) for b in st.body for n in ast.walk(b)):
                nb = _nest_continues_deep(st.body)
                if any(isinstance(n, ast.Continue) for b in nb for n in ast.walk(b)):
                    nb = _eliminate_continues(st.body) or nb
                if not any(isinstance(n, ast.Continue) for b in nb for n in ast.walk(b)):
                    st = copy.copy(st)
                    st.body = nb
            if r is not None and _is_generator(r[0]) and not any(isinstance(n, (ast.Break, ast.Continue, ast.Return)) for b in st.body for n in ast.walk(b)):
                fn, bound = r
                # an early `return` of the generator ends the iteration (the loop has no else/break): read as "rest not executed"
                has_bad = any(isinstance(n, ast.YieldFrom) for n in ast.walk(fn) if n is not fn)
                if not has_bad:
                    try:
                        new = self._instantiate(fn, st.iter, bound, None)
                        target, body = st.target, st.body

                        root = getattr(self, "_root", None)
                        tnames = {n.id for n in ast.walk(target) if isinstance(n, ast.Name)}
                        body_ids = {id(n) for b in body for n in ast.walk(b)}
                        used_outside = root is None or any(isinstance(n, ast.Name) and n.id in tnames and id(n) not in body_ids
                                                           and not any(n is x for x in ast.walk(target)) for n in ast.walk(root))
                        rebinds = any(isinstance(n, ast.Name) and n.id in tnames and isinstance(n.ctx, (ast.Store, ast.Del)) for b in body for n in ast.walk(b))
                        loads_in_body: Dict[str, int] = {}
                        for b in body:
                            for n in ast.walk(b):
                                if isinstance(n, ast.Name) and isinstance(n.ctx, ast.Load) and n.id in tnames:
                                    loads_in_body[n.id] = loads_in_body.get(n.id, 0) + 1

                        def direct(val):
                            """name -> expression when `target = val` can be read by writing the parts of a display into the body."""
                            if used_outside or rebinds or not isinstance(target, (ast.Tuple, ast.List)) or not isinstance(val, (ast.Tuple, ast.List)):
                                return None
                            if any(isinstance(x, ast.Starred) for x in val.elts):
                                return None
                            ts = list(target.elts)
                            stars = [i for i, t in enumerate(ts) if isinstance(t, ast.Starred)]
                            if len(stars) > 1 or not all(isinstance(t.value if isinstance(t, ast.Starred) else t, ast.Name) for t in ts):
                                return None
                            if not stars and len(ts) != len(val.elts):
                                return None
                            if stars and len(val.elts) < len(ts) - 1:
                                return None
                            m: Dict[str, ast.expr] = {}
                            if stars:
                                k = stars[0]
                                tail = len(ts) - k - 1
                                for t, v in zip(ts[:k], val.elts[:k]):
                                    m[t.id] = v
                                m[ts[k].value.id] = ast.Tuple(elts=list(val.elts[k:len(val.elts) - tail]), ctx=ast.Load())
                                for t, v in zip(ts[k + 1:], val.elts[len(val.elts) - tail:] if tail else []):
                                    m[t.id] = v
                            else:
                                for t, v in zip(ts, val.elts):
                                    m[t.id] = v
                            for nm, v in m.items():
                                simple = isinstance(v, (ast.Constant, ast.Name)) or (isinstance(v, ast.Attribute) and norm(v).count("(") == 0) \
                                    or (isinstance(v, ast.Tuple) and loads_in_body.get(nm, 0) <= 1)
                                if not simple and loads_in_body.get(nm, 0) > 1:
                                    return None
                            return m

                        class Y(ast.NodeTransformer):
                            def visit_Expr(self, node):
                                if isinstance(node.value, ast.Yield) and node.value.value is not None:
                                    m = direct(node.value.value)
                                    if m is not None:
                                        outb = []
                                        for b in body:
                                            nb = _Rename({k: copy.deepcopy(v) for k, v in m.items()}).visit(copy.deepcopy(b))
                                            outb.append(_splice_starred_displays(nb))
                                        return outb
                                    assign = ast.Assign(targets=[copy.deepcopy(target)], value=node.value.value)
                                    ast.copy_location(assign, node)
                                    return [assign] + [copy.deepcopy(b) for b in body]
                                return node

                            def visit_FunctionDef(self, node):
                                return node
                        out = []
                        for x in new:
                            y = Y().visit(x)
                            out.extend(y if isinstance(y, list) else [y])
                        for x in out:
                            ast.fix_missing_locations(x)
                        return self._block(out, depth - 1)
                    except CannotInline:
                        pass
        # expression-level inlining inside the statement, then recurse into compound statements
        st = self._exprs(st, depth)
        for fld in ("body", "orelse", "finalbody"):
            if hasattr(st, fld) and isinstance(getattr(st, fld), list) and not isinstance(st, (ast.FunctionDef, ast.ClassDef, ast.Lambda)):
                setattr(st, fld, self._block(getattr(st, fld), depth) or ([ast.Pass()] if fld == "body" else []))
        if isinstance(st, ast.Try):
            for h in st.handlers:
                h.body = self._block(h.body, depth) or [ast.Pass()]
        return [st]

    def _block(self, stmts: List[ast.stmt], depth: int) -> List[ast.stmt]:
        out: List[ast.stmt] = []
        stmts = self._hoist_generator_locals(stmts)
        for st in stmts:
            out.extend(self._stmt(st, depth))
        return out

    def _hoist_generator_locals(self, stmts: List[ast.stmt]) -> List[ast.stmt]:
        """`rows = self._gen(...)` directly followed by `for … in rows:` (the local bound once and read only there) reads as
        `for … in self._gen(...):` — a generator runs nothing until it is iterated."""
        res: List[ast.stmt] = []
        i = 0
        while i < len(stmts):
            st = stmts[i]
            nxt = stmts[i + 1] if i + 1 < len(stmts) else None
            if isinstance(st, ast.Assign) and len(st.targets) == 1 and isinstance(st.targets[0], ast.Name) and isinstance(st.value, ast.Call) \
                    and isinstance(nxt, ast.For) and isinstance(nxt.iter, ast.Name) and nxt.iter.id == st.targets[0].id:
                r = self.resolve_call(st.value)
                nm = st.targets[0].id
                root = getattr(self, "_root", None)
                if r is not None and _is_generator(r[0]) and root is not None:
                    uses = [n for n in ast.walk(root) if isinstance(n, ast.Name) and n.id == nm]
                    if len(uses) == 2:
                        lp = copy.copy(nxt)
                        lp.iter = st.value
                        res.append(lp)
                        i += 2
                        continue
            res.append(st)
            i += 1
        return res

    # ------------------------------------------------------------------ expressions
    def _exprs(self, st: ast.stmt, depth: int) -> ast.stmt:
        inl = self

        class X(ast.NodeTransformer):
            def visit_FunctionDef(self, node):
                return node

            visit_ClassDef = visit_AsyncFunctionDef = visit_FunctionDef

            def visit_Call(self, node):
                node = self.generic_visit(node)
                r = inl.resolve_call(node)
                if r is None:
                    return node
                fn, bound = r
                b = _body(fn)
                if not (len(b) == 1 and isinstance(b[0], ast.Return)) and not _is_generator(fn):
                    ex = as_expression(fn)
                    if ex is None and any(isinstance(x, ast.Assign) and isinstance(x.targets[0], (ast.Tuple, ast.List)) and isinstance(x.value, ast.Name)
                                          for x in _body(fn)):
                        # the helper unpacks one of its parameters (`shift, mask = field`) and the call passes a constant row by name:
                        # read the helper with that argument written in
                        try:
                            _pre, _map = inl._bind(fn, node, bound)
                            if not _pre:
                                inst_fn = copy.deepcopy(fn)
                                inst_fn.body = [_Rename({k_: v_ for k_, v_ in _map.items() if k_ != "self" or True}).visit(x) for x in inst_fn.body]
                                inst_fn.args = ast.arguments(posonlyargs=[], args=[], kwonlyargs=[], kw_defaults=[], defaults=[])
                                if resolve_const_rows(inl.repo, inl.ci, inl.sf, inst_fn):
                                    ex2 = as_expression(propagate_int_constants(split_tuple_assigns(inst_fn)))
                                    if ex2 is not None:
                                        for n_ in ast.walk(ex2):
                                            n_.lineno = getattr(node, "lineno", 1)
                                            n_.end_lineno = getattr(node, "end_lineno", n_.lineno)
                                            n_.col_offset = getattr(node, "col_offset", 0)
                                            n_.end_col_offset = getattr(node, "end_col_offset", 0)
                                        inl.inlined.append(fn.name)
                                        return ex2
                        except CannotInline:
                            pass
                    if ex is not None:
                        b = [ast.Return(value=ex)]
                if len(b) == 1 and isinstance(b[0], ast.Return) and b[0].value is not None and not _is_generator(fn):
                    try:
                        inl.counter += 1
                        pre, mapping = inl._bind(fn, node, bound)
                        if pre:
                            # substitute the argument expressions directly (analysis only: duplicated evaluation is harmless)
                            for p in pre:
                                tmp = p.targets[0].id
                                for k, v in list(mapping.items()):
                                    if isinstance(v, ast.Name) and v.id == tmp:
                                        mapping[k] = p.value
                        # comprehension variables of the helper stay as they are
                        e = _Rename(mapping).visit(copy.deepcopy(b[0].value))
                        for n in ast.walk(e):
                            n.lineno = getattr(node, "lineno", 1)
                            n.end_lineno = getattr(node, "end_lineno", n.lineno)
                            n.col_offset = getattr(node, "col_offset", 0)
                            n.end_col_offset = getattr(node, "end_col_offset", 0)
                        inl.inlined.append(fn.name)
                        if depth > 1:
                            tmp_st = ast.Expr(value=e)
                            e = inl._exprs(tmp_st, depth - 1).value
                        return e
                    except CannotInline:
                        return node
                return node

            def visit_Attribute(self, node):
                node = self.generic_visit(node)
                e = inl.resolve_property(node)
                if e is not None:
                    for n in ast.walk(e):
                        n.lineno = getattr(node, "lineno", 1)
                        n.end_lineno = getattr(node, "end_lineno", n.lineno)
                        n.col_offset = getattr(node, "col_offset", 0)
                        n.end_col_offset = getattr(node, "end_col_offset", 0)
                    inl.inlined.append(node.attr)
                    if depth > 1:
                        e = inl._exprs(ast.Expr(value=e), depth - 1).value
                    return e
                return node

        # only the statement's own expressions (compound bodies are handled by _block)
        if isinstance(st, (ast.If, ast.While)):
            st.test = X().visit(st.test)
            return st
        if isinstance(st, (ast.For, ast.AsyncFor)):
            st.iter = X().visit(st.iter)
            return st
        if isinstance(st, (ast.With, ast.AsyncWith)):
            for it in st.items:
                it.context_expr = X().visit(it.context_expr)
            return st
        if isinstance(st, (ast.Try, ast.FunctionDef, ast.ClassDef, ast.AsyncFunctionDef)):
            return st
        return X().visit(st)

    # ------------------------------------------------------------------ entry
    def flatten(self, fn: ast.FunctionDef) -> ast.FunctionDef:
        new = copy.deepcopy(fn)
        self._root = new
        self.caller_names = {n.id for n in ast.walk(new) if isinstance(n, ast.Name)} | {a.arg for a in new.args.args}
        # closures defined directly in the body and bound only by their `def`
        stores: Dict[str, int] = {}
        for n in ast.walk(new):
            if isinstance(n, ast.Name) and isinstance(n.ctx, (ast.Store, ast.Del)):
                stores[n.id] = stores.get(n.id, 0) + 1
        def local_defs(stmts):
            for st in stmts:
                if isinstance(st, ast.FunctionDef):
                    yield st
                elif not isinstance(st, ast.ClassDef):
                    for fld in ("body", "orelse", "finalbody"):
                        sub = getattr(st, fld, None)
                        if isinstance(sub, list):
                            yield from local_defs(sub)
                    if isinstance(st, ast.Try):
                        for h in st.handlers:
                            yield from local_defs(h.body)
        all_defs = list(local_defs(new.body))
        names_count: Dict[str, int] = {}
        for d in all_defs:
            names_count[d.name] = names_count.get(d.name, 0) + 1
        self._local_defs = {st.name: st for st in all_defs if not stores.get(st.name) and names_count[st.name] == 1
                            and not st.decorator_list and not any(isinstance(x, (ast.Nonlocal, ast.Global)) for x in ast.walk(st))}
        new.body = self._block(new.body, self.depth) or [ast.Pass()]
        # a local closure that was read through at every call and is not mentioned any more is dropped
        if self._local_defs:
            mentioned = {n.id for n in ast.walk(new) if isinstance(n, ast.Name)}

            def prune(stmts):
                out = []
                for st in stmts:
                    if isinstance(st, ast.FunctionDef) and st.name in self._local_defs and st.name not in mentioned and st.name in self.inlined:
                        continue
                    for fld in ("body", "orelse", "finalbody"):
                        sub = getattr(st, fld, None)
                        if isinstance(sub, list) and not isinstance(st, (ast.FunctionDef, ast.ClassDef)):
                            setattr(st, fld, prune(sub) or ([ast.Pass()] if fld == "body" else []))
                    if isinstance(st, ast.Try):
                        for h in st.handlers:
                            h.body = prune(h.body) or [ast.Pass()]
                    out.append(st)
                return out
            new.body = prune(new.body) or [ast.Pass()]
        _forward_result_temps(new)
        _forward_element_temps(new)
        ast.fix_missing_locations(new)
        number(new)
        return new


def _forward_element_temps(fn: ast.FunctionDef) -> None:
    """`__eN = E` directly followed by a simple statement that reads the generated temporary exactly once (`acc += __eN`,
    `xs.append(__eN)`) reads as that statement with E in place; the temporary is the element variable the inliner made when it
    read `for e in self._gen(): …` / `b"".join(self._gen())` through."""
    if not any(isinstance(n, ast.Name) and n.id.startswith("__e") and n.id[3:].isdigit() for n in ast.walk(fn)):
        return

    def block(stmts: List[ast.stmt]) -> List[ast.stmt]:
        out: List[ast.stmt] = []
        i = 0
        while i < len(stmts):
            st = stmts[i]
            nxt = stmts[i + 1] if i + 1 < len(stmts) else None
            if isinstance(st, ast.Assign) and len(st.targets) == 1 and isinstance(st.targets[0], ast.Name) and st.targets[0].id.startswith("__e") \
                    and st.targets[0].id[3:].isdigit() and isinstance(nxt, (ast.AugAssign, ast.Expr, ast.Assign)):
                t = st.targets[0].id
                uses = [n for n in ast.walk(nxt) if isinstance(n, ast.Name) and n.id == t]
                later = [n for s2 in stmts[i + 2:] for n in ast.walk(s2) if isinstance(n, ast.Name) and n.id == t]
                # a later read must be preceded by a new store in this block (the next generated element)
                later_ok = not later or (isinstance(later[0].ctx, ast.Store))
                if len(uses) == 1 and isinstance(uses[0].ctx, ast.Load) and later_ok \
                        and not any(isinstance(x, (ast.Yield, ast.YieldFrom, ast.Await, ast.NamedExpr)) for x in ast.walk(st.value)):
                    out.append(_Rename({t: st.value}).visit(nxt))
                    i += 2
                    continue
            for fld in ("body", "orelse", "finalbody"):
                sub = getattr(st, fld, None)
                if isinstance(sub, list) and sub and isinstance(sub[0], ast.stmt) and not isinstance(st, (ast.FunctionDef, ast.ClassDef)):
                    setattr(st, fld, block(sub))
            if isinstance(st, ast.Try):
                for h in st.handlers:
                    h.body = block(h.body)
            out.append(st)
            i += 1
        return out
    fn.body = block(fn.body)


def _forward_result_temps(fn: ast.FunctionDef) -> None:
    """`if c: __retN = A  else: __retN = B` directly followed by `x = __retN` (the only read of the temporary, every store of it the
    last statement of its branch) reads as `if c: x = A  else: x = B`; an `x = x` left behind is dropped.  This is the shape a
    caller had before `x = self._helper(x)` with early returns was read through."""
    loads: Dict[str, int] = {}
    stores: Dict[str, int] = {}
    for n in ast.walk(fn):
        if isinstance(n, ast.Name) and n.id.startswith("__ret"):
            d = loads if isinstance(n.ctx, ast.Load) else stores
            d[n.id] = d.get(n.id, 0) + 1

    def tail_stores(stmts: List[ast.stmt], t: str) -> Optional[int]:
        """number of stores of t in stmts when each is the last statement of its (nested if) block, else None."""
        n = 0
        for i, st in enumerate(stmts):
            is_last = i == len(stmts) - 1
            if isinstance(st, ast.Assign) and len(st.targets) == 1 and isinstance(st.targets[0], ast.Name) and st.targets[0].id == t:
                if not is_last:
                    return None
                n += 1
            elif isinstance(st, ast.If) and is_last:
                a, b = tail_stores(st.body, t), tail_stores(st.orelse, t)
                if a is None or b is None:
                    return None
                n += a + b
            elif any(isinstance(x, ast.Name) and x.id == t for x in ast.walk(st)):
                return None
        return n

    def rename(stmts: List[ast.stmt], t: str, x: ast.expr) -> List[ast.stmt]:
        out = []
        for st in stmts:
            if isinstance(st, ast.Assign) and isinstance(st.targets[0], ast.Name) and st.targets[0].id == t:
                if norm(st.value) == norm(x):
                    continue
                st.targets = [copy.deepcopy(x)]
            elif isinstance(st, ast.If):
                st.body = rename(st.body, t, x) or [ast.Pass()]
                st.orelse = rename(st.orelse, t, x)
            out.append(st)
        return out

    def block(stmts: List[ast.stmt]) -> List[ast.stmt]:
        out: List[ast.stmt] = []
        i = 0
        while i < len(stmts):
            st = stmts[i]
            nxt = stmts[i + 1] if i + 1 < len(stmts) else None
            if isinstance(st, ast.Assign) and len(st.targets) == 1 and isinstance(st.targets[0], ast.Name) and st.targets[0].id.startswith("__ret") \
                    and stores.get(st.targets[0].id) == 1 and loads.get(st.targets[0].id) == 1 and isinstance(nxt, ast.Assign) and len(nxt.targets) == 1 \
                    and isinstance(nxt.value, ast.Name) and nxt.value.id == st.targets[0].id:
                # __retN = E; T = __retN   (the temporary is read nowhere else)   is   T = E
                nxt.value = st.value
                out.append(nxt)
                i += 2
                continue
            if isinstance(st, ast.Assign) and len(st.targets) == 1 and isinstance(st.targets[0], ast.Name) and st.targets[0].id.startswith("__ret") \
                    and stores.get(st.targets[0].id) == 1 and loads.get(st.targets[0].id) == 1 and isinstance(nxt, ast.Return) \
                    and isinstance(nxt.value, ast.Name) and nxt.value.id == st.targets[0].id:
                nxt.value = st.value            # __retN = E; return __retN
                out.append(nxt)
                i += 2
                continue
            if isinstance(st, ast.If) and isinstance(nxt, ast.Assign) and len(nxt.targets) == 1 and isinstance(nxt.targets[0], ast.Name) \
                    and isinstance(nxt.value, ast.Name) and nxt.value.id.startswith("__ret") and loads.get(nxt.value.id) == 1:
                t = nxt.value.id
                k = tail_stores([st], t)
                if k is not None and k == stores.get(t) and k >= 1:
                    x = nxt.targets[0]
                    x = ast.Name(id=x.id, ctx=ast.Store())
                    res = rename([st], t, x)
                    out.extend(res)
                    i += 2
                    continue
            for fld in ("body", "orelse", "finalbody"):
                sub = getattr(st, fld, None)
                if isinstance(sub, list) and sub and isinstance(sub[0], ast.stmt) and not isinstance(st, (ast.FunctionDef, ast.ClassDef)):
                    setattr(st, fld, block(sub) or ([ast.Pass()] if fld == "body" else []))
            if isinstance(st, ast.Try):
                for h in st.handlers:
                    h.body = block(h.body) or [ast.Pass()]
            out.append(st)
            i += 1
        return out
    if stores:
        fn.body = block(fn.body) or [ast.Pass()]


def number(fn: ast.AST) -> None:
    """Source-order sequence numbers (`_seq`, `_seq_end`): line numbers of inlined code all equal the call site's."""
    counter = [0]

    def rec(n):
        n._seq = counter[0]
        counter[0] += 1
        for c in ast.iter_child_nodes(n):
            rec(c)
        n._seq_end = counter[0]
    rec(fn)


def pos(n: ast.AST) -> int:
    return getattr(n, "_seq", getattr(n, "lineno", 0))


def as_expression(fn: ast.FunctionDef) -> Optional[ast.expr]:
    """The value a function returns, as one expression: straight-line local assignments are substituted and
    `if c: return a` … `return b` becomes `a if c else b`.  None when the body has any other shape."""
    if any(isinstance(n, ast.Assign) and len(n.targets) == 1 and isinstance(n.targets[0], (ast.Tuple, ast.List)) for n in ast.walk(fn)):
        try:
            fn = split_tuple_assigns(fn)        # `head, _, _ = data.partition(sep)` as single-target assignments
        except Exception:
            pass

    def subst(e: ast.expr, env: Dict[str, ast.expr]) -> ast.expr:
        return _Rename(dict(env)).visit(copy.deepcopy(e)) if env else copy.deepcopy(e)

    def branch_env(stmts: List[ast.stmt], env: Dict[str, ast.expr]) -> Optional[Dict[str, ast.expr]]:
        e2 = dict(env)
        for st in stmts:
            if isinstance(st, ast.Pass) or (isinstance(st, ast.Expr) and isinstance(st.value, ast.Constant)):
                continue
            if isinstance(st, ast.Assign) and len(st.targets) == 1 and isinstance(st.targets[0], ast.Name):
                e2[st.targets[0].id] = subst(st.value, e2)
                continue
            if isinstance(st, ast.Assign) and len(st.targets) == 1 and isinstance(st.targets[0], (ast.Tuple, ast.List)) \
                    and len(st.targets[0].elts) == 1 and isinstance(st.targets[0].elts[0], ast.Name) and isinstance(st.value, (ast.Name, ast.Call)):
                # (x,) = xs   →   x = xs[0]
                e2[st.targets[0].elts[0].id] = ast.Subscript(value=subst(st.value, e2), slice=ast.Constant(value=0), ctx=ast.Load())
                continue
            return None
        return e2

    def go(stmts: List[ast.stmt], env: Dict[str, ast.expr]) -> Optional[ast.expr]:
        env = dict(env)
        for i, st in enumerate(stmts):
            if isinstance(st, ast.Pass) or (isinstance(st, ast.Expr) and isinstance(st.value, ast.Constant)):
                continue
            if isinstance(st, ast.Assign) and len(st.targets) == 1 and isinstance(st.targets[0], ast.Name):
                env[st.targets[0].id] = subst(st.value, env)
                continue
            if isinstance(st, ast.AugAssign) and isinstance(st.target, ast.Name) and st.target.id in env:
                # x |= e  after  x = e0:  x is (e0 | e)
                env[st.target.id] = ast.BinOp(left=copy.deepcopy(env[st.target.id]), op=copy.deepcopy(st.op), right=subst(st.value, env))
                continue
            if isinstance(st, ast.Assign) and len(st.targets) == 1 and isinstance(st.targets[0], (ast.Tuple, ast.List)) \
                    and len(st.targets[0].elts) == 1 and isinstance(st.targets[0].elts[0], ast.Name) and isinstance(st.value, ast.Call):
                # (x,) = unpack(F, data)    →   x = unpack(F, data)[0]
                env[st.targets[0].elts[0].id] = ast.Subscript(value=subst(st.value, env), slice=ast.Constant(value=0), ctx=ast.Load())
                continue
            if isinstance(st, ast.Assign) and len(st.targets) == 1 and isinstance(st.targets[0], (ast.Tuple, ast.List)) \
                    and all(isinstance(t, ast.Name) for t in st.targets[0].elts) and isinstance(st.value, ast.Name):
                # a, b = pair   →   a = pair[0]; b = pair[1]
                src = subst(st.value, env)
                for i_, t in enumerate(st.targets[0].elts):
                    env[t.id] = ast.Subscript(value=copy.deepcopy(src), slice=ast.Constant(value=i_), ctx=ast.Load())
                continue
            if isinstance(st, ast.Return) and st.value is not None:
                return subst(st.value, env)
            if isinstance(st, ast.If) and not any(isinstance(x, ast.Return) for b in (st.body, st.orelse) for y in b for x in ast.walk(y)):
                # branches that only assign locals: merge the environments with conditional expressions
                ea, eb = branch_env(st.body, env), branch_env(st.orelse, env)
                if ea is None or eb is None:
                    return None
                t = subst(st.test, env)
                for k in set(ea) | set(eb):
                    va, vb = ea.get(k, env.get(k, ast.Name(id=k, ctx=ast.Load()))), eb.get(k, env.get(k, ast.Name(id=k, ctx=ast.Load())))
                    if ast.dump(va) != ast.dump(vb):
                        env[k] = ast.fix_missing_locations(ast.copy_location(ast.IfExp(test=copy.deepcopy(t), body=va, orelse=vb), st))
                continue
            if isinstance(st, ast.If):
                rest = stmts[i + 1:]
                a = go(st.body + rest, env) if not _always_returns(st.body) else go(st.body, env)
                b = go(st.orelse + rest, env) if not _always_returns(st.orelse) else go(st.orelse, env)
                if a is None or b is None:
                    return None
                e = ast.IfExp(test=subst(st.test, env), body=a, orelse=b)
                return ast.fix_missing_locations(ast.copy_location(e, st))
            return None
        return None
    return go(_body(fn), {})


def _always_returns(stmts: List[ast.stmt]) -> bool:
    for st in stmts:
        if isinstance(st, (ast.Return, ast.Raise)):
            return True
        if isinstance(st, ast.If) and _always_returns(st.body) and _always_returns(st.orelse):
            return True
    return False


def _flatten_only(repo: Repo, ci: Optional[ClassInfo], fn: ast.FunctionDef, sf: Optional[SourceFile] = None, depth: int = 3,
                  also: Iterable[str] = (), exclude: Iterable[str] = (), exact: bool = False, receivers=None) -> ast.FunctionDef:
    """Copy of `fn` with private helpers inlined (see module docstring).  Never raises: what cannot be inlined stays a call."""
    try:
        return Inliner(repo, ci, sf, depth, also, exclude, exact, receivers).flatten(fn)
    except RecursionError:
        return fn


def flatten(repo: Repo, ci: Optional[ClassInfo], fn: ast.FunctionDef, sf: Optional[SourceFile] = None, depth: int = 3,
            also: Iterable[str] = (), exclude: Iterable[str] = (), exact: bool = False) -> ast.FunctionDef:
    """The normal form of `fn` (helpers inlined, constant tables unrolled, struct objects desugared); kept under its old name."""
    return normalize(repo, ci, fn, sf, depth=depth, also=also, exclude=exclude, exact=exact)


# ---------------------------------------------------------------------------------------------- unrolling
MAX_UNROLL = 48


def _const_str(e: ast.expr) -> Optional[str]:
    """Value of a string expression made of literals only: "a" + "b", f"x_{'y'}", "%s_z" % "a", "{}".format("a")."""
    if isinstance(e, ast.Constant) and isinstance(e.value, str):
        return e.value
    if isinstance(e, ast.BinOp) and isinstance(e.op, ast.Add):
        a, b = _const_str(e.left), _const_str(e.right)
        return a + b if a is not None and b is not None else None
    if isinstance(e, ast.JoinedStr):
        parts = []
        for v in e.values:
            if isinstance(v, ast.Constant) and isinstance(v.value, str):
                parts.append(v.value)
            elif isinstance(v, ast.FormattedValue) and v.format_spec is None and v.conversion == -1:
                inner = _const_str(v.value)
                if inner is None and isinstance(v.value, ast.Constant) and isinstance(v.value.value, int):
                    inner = str(v.value.value)
                if inner is None:
                    return None
                parts.append(inner)
            else:
                return None
        return "".join(parts)
    if isinstance(e, ast.BinOp) and isinstance(e.op, ast.Mod):
        a, b = _const_str(e.left), _const_str(e.right)
        if a is not None and b is not None and a.count("%s") == 1 and a.count("%") == 1:
            return a.replace("%s", b)
    if isinstance(e, ast.Call) and isinstance(e.func, ast.Attribute) and e.func.attr == "format" and len(e.args) == 1 and not e.keywords:
        a, b = _const_str(e.func.value), _const_str(e.args[0])
        if a is not None and b is not None and a.count("{}") == 1 and a.count("{") == 1:
            return a.replace("{}", b)
    return None


class _AttrConst(ast.NodeTransformer):
    """getattr(x, "name") -> x.name ; setattr(x, "name", v) as a statement -> x.name = v"""

    def visit_Call(self, node):
        node = self.generic_visit(node)
        if isinstance(node.func, ast.Name) and node.func.id in ("getattr", "setattr") and len(node.args) >= 2 \
                and not isinstance(node.args[1], ast.Constant):
            cs = _const_str(node.args[1])
            if cs is not None:
                node.args[1] = ast.copy_location(ast.Constant(value=cs), node.args[1])
        if isinstance(node.func, ast.Name) and node.func.id == "getattr" and len(node.args) == 2 and not node.keywords \
                and isinstance(node.args[1], ast.Constant) and isinstance(node.args[1].value, str) and node.args[1].value.isidentifier():
            return ast.copy_location(ast.Attribute(value=node.args[0], attr=node.args[1].value, ctx=ast.Load()), node)
        return node

    def visit_Expr(self, node):
        node = self.generic_visit(node)
        c = node.value
        if isinstance(c, ast.Call) and isinstance(c.func, ast.Name) and c.func.id == "setattr" and len(c.args) == 3 and not c.keywords \
                and isinstance(c.args[1], ast.Constant) and isinstance(c.args[1].value, str) and c.args[1].value.isidentifier():
            t = ast.Attribute(value=c.args[0], attr=c.args[1].value, ctx=ast.Store())
            return ast.copy_location(ast.Assign(targets=[t], value=c.args[2]), node)
        return node


def _literal_elements(repo: Optional[Repo], ci: Optional[ClassInfo], e: ast.expr, env: Dict[str, List[ast.expr]],
                      indexable: Optional[Set[str]] = None, sf: Optional[SourceFile] = None) -> Optional[List[ast.expr]]:
    """The elements of an iterable that is known when reading the code: a tuple/list display, range(<small constant>),
    a local bound to such a display, or a class/module constant that folds to a short tuple of strings / numbers."""
    if isinstance(e, (ast.Tuple, ast.List)) and not any(isinstance(x, ast.Starred) for x in e.elts):
        return list(e.elts) if len(e.elts) <= MAX_UNROLL else None
    if isinstance(e, ast.Name) and e.id in env:
        return list(env[e.id])
    if isinstance(e, ast.Call) and isinstance(e.func, ast.Name) and e.func.id in ("list", "tuple", "iter") and len(e.args) == 1:
        return _literal_elements(repo, ci, e.args[0], env, indexable, sf)
    if isinstance(e, ast.Call) and isinstance(e.func, ast.Name) and e.func.id == "enumerate" and 1 <= len(e.args) <= 2 and not e.keywords:
        inner = _literal_elements(repo, ci, e.args[0], env, indexable, sf)
        start = 0
        if len(e.args) == 2:
            if not (isinstance(e.args[1], ast.Constant) and isinstance(e.args[1].value, int)):
                return None
            start = e.args[1].value
        if inner is not None:
            return [ast.Tuple(elts=[ast.Constant(value=start + i), x], ctx=ast.Load()) for i, x in enumerate(inner)]
    if isinstance(e, ast.Call) and isinstance(e.func, ast.Name) and e.func.id == "zip" and e.args and not e.keywords:
        cols = [_literal_elements(repo, ci, a, env, indexable, sf) for a in e.args]
        if all(c is not None for c in cols):
            n = min(len(c) for c in cols)
            return [ast.Tuple(elts=[c[i] for c in cols], ctx=ast.Load()) for i in range(n)]
        # zip(<known names>, <result of unpack(...)>): the unpacked tuple is read by position.  (Assumes the format yields at
        # least as many values as there are names; the rules that read the result compare the two counts.)
        known = [c for c in cols if c is not None]
        if known and indexable and all(c is not None or (isinstance(a, ast.Name) and a.id in indexable) for c, a in zip(cols, e.args)):
            n = min(len(c) for c in known)
            rows = []
            for i in range(n):
                rows.append(ast.Tuple(elts=[c[i] if c is not None else ast.Subscript(value=ast.Name(id=a.id, ctx=ast.Load()),
                                                                                     slice=ast.Constant(value=i), ctx=ast.Load())
                                            for c, a in zip(cols, e.args)], ctx=ast.Load()))
            return rows
    # a module / class constant written as a tuple display (rows may name codecs, attributes, …): the rows as written
    if repo is not None and isinstance(e, (ast.Name, ast.Attribute)) or \
            (repo is not None and isinstance(e, ast.Call) and isinstance(e.func, ast.Attribute) and e.func.attr in ("items", "values", "keys") and not e.args):
        rows = _display_rows(repo, ci, sf, e)
        if rows is not None:
            return rows
    is_range = isinstance(e, ast.Call) and isinstance(e.func, ast.Name) and e.func.id == "range"
    is_const_name = isinstance(e, (ast.Name, ast.Attribute))
    if repo is not None and (is_range or is_const_name):
        try:
            v = repo.fold(e, ci=ci, sf=sf)
        except Exception:
            v = None
        if isinstance(v, range):
            v = tuple(v)
        elif not isinstance(v, tuple):
            v = None              # only immutable tuples count as constants (a class-level list/dict is state, not a constant)
        if isinstance(v, (tuple, list)) and 0 < len(v) <= MAX_UNROLL and all(isinstance(x, (str, int, bytes)) or
                                                                            (isinstance(x, tuple) and all(isinstance(y, (str, int)) for y in x)) for x in v):
            out = []
            for x in v:
                if isinstance(x, tuple):
                    out.append(ast.Tuple(elts=[ast.Constant(value=y) for y in x], ctx=ast.Load()))
                else:
                    out.append(ast.Constant(value=x))
            return out
    return None


def _display_rows(repo: Repo, ci: Optional[ClassInfo], sf: Optional[SourceFile], e: ast.expr) -> Optional[List[ast.expr]]:
    """Rows of a constant table as they are written in its defining display (tuple display, or `.items()` of a dict display with
    constant keys).  Names in a class-level display that denote other class-level constants are qualified with `self.`.
    Only immutable displays count (a tuple; a dict display is accepted because `.items()` of a module/class constant that is
    never re-bound is what the loop iterates), and only up to MAX_UNROLL rows of plain names / constants / tuples of these."""
    items = False
    view = "items"
    if isinstance(e, ast.Call):
        items, view, e = True, e.func.attr, e.func.value
    sf = sf or (ci.file if ci is not None else None)
    d = definition_of(repo, ci, sf, e)
    if d is None:
        return None
    owner = None
    if isinstance(e, ast.Attribute) and isinstance(e.value, ast.Name):
        owner = ci if e.value.id in ("self", "cls") else repo.class_of_expr(e.value, ci, sf)
        if owner is not None:
            r = repo.lookup(owner, e.attr)
            owner = r[0] if r is not None else owner
    if items:
        if not (isinstance(d, ast.Dict) and all(k is not None and isinstance(k, ast.Constant) for k in d.keys)):
            return None
        if len({repr(k.value) for k in d.keys}) != len(d.keys):
            return None               # a repeated key: the display is not the mapping
        rows: List[ast.expr] = [ast.Tuple(elts=[k, v], ctx=ast.Load()) if view == "items" else (v if view == "values" else k)
                                for k, v in zip(d.keys, d.values)]
    elif isinstance(d, ast.Tuple) and not any(isinstance(x, ast.Starred) for x in d.elts):
        rows = list(d.elts)
    else:
        return None
    if not rows or len(rows) > MAX_UNROLL:
        return None

    def simple(x: ast.expr) -> bool:
        if isinstance(x, (ast.Constant, ast.Name)):
            return True
        if isinstance(x, ast.Attribute):
            return simple(x.value)
        if isinstance(x, ast.UnaryOp):
            return simple(x.operand)
        if isinstance(x, (ast.Tuple, ast.List)):
            return all(simple(y) for y in x.elts)
        return False
    def record_row(x: ast.expr) -> bool:
        if isinstance(x, ast.Call) and isinstance(x.func, (ast.Name, ast.Attribute)) and all(simple(a) for a in x.args) \
                and all(k.arg is not None and simple(k.value) for k in x.keywords):
            try:
                return bool(record_fields(repo, ci, sf, x.func))
            except Exception:
                return False
        return False
    if not all(simple(r) or record_row(r) for r in rows):
        return None
    rows = [copy.deepcopy(r) for r in rows]
    if owner is not None:
        class Q(ast.NodeTransformer):
            def visit_Name(self, node):
                if isinstance(node.ctx, ast.Load) and node.id in owner.assigns:
                    return ast.copy_location(ast.Attribute(value=ast.Name(id="self", ctx=ast.Load()), attr=node.id, ctx=ast.Load()), node)
                return node
        rows = [Q().visit(r) for r in rows]
    return rows


def _nest_continues(body: List[ast.stmt]) -> List[ast.stmt]:
    """`if c: continue` followed by REST, directly in a loop body, reads as `if not c: REST`."""
    out: List[ast.stmt] = []
    for i, st in enumerate(body):
        if isinstance(st, ast.If) and not st.orelse and len(st.body) >= 1 and isinstance(st.body[-1], ast.Continue) \
                and not any(isinstance(x, (ast.Continue, ast.Break)) for b in st.body[:-1] for x in ast.walk(b)):
            rest = _nest_continues(body[i + 1:])
            new = ast.If(test=copy.deepcopy(st.test), body=[copy.deepcopy(b) for b in st.body[:-1]] or [ast.Pass()], orelse=rest)
            if not st.body[:-1]:
                new = ast.If(test=_negate(copy.deepcopy(st.test)), body=rest or [ast.Pass()], orelse=[])
            out.append(ast.copy_location(new, st))
            return out
        out.append(st)
    return out


def _nest_continues_deep(body: List[ast.stmt]) -> List[ast.stmt]:
    """_nest_continues applied to a loop body and, recursively, to the branches of an `if` in tail position (a `continue` there
    still skips only what follows it in the iteration; in an `if` that is followed by more statements it would skip those too)."""
    out = _nest_continues([copy.deepcopy(x) for x in body])
    if out and isinstance(out[-1], ast.If):
        out[-1].body = _nest_continues_deep(out[-1].body) or [ast.Pass()]
        out[-1].orelse = _nest_continues_deep(out[-1].orelse)
    # a `continue` that ends a tail block skips nothing
    if len(out) > 1 and isinstance(out[-1], ast.Continue):
        out = out[:-1]
    return out


def _eliminate_continues(body: List[ast.stmt]) -> Optional[List[ast.stmt]]:
    """A loop body in which every `continue` (at any depth of if/else) is replaced by structure: what follows a branch that
    continues moves into the other branch.  None when a `continue` sits inside a with/try (or the result would still hold one)."""
    def has_cont(stmts) -> bool:
        for st in stmts:
            if isinstance(st, ast.Continue):
                return True
            if isinstance(st, (ast.For, ast.While, ast.FunctionDef, ast.ClassDef)):
                continue
            for fld in ("body", "orelse", "finalbody"):
                if has_cont(getattr(st, fld, None) or []):
                    return True
            if any(has_cont(h.body) for h in getattr(st, "handlers", [])):
                return True
        return False

    class GiveUp(Exception):
        pass

    def elim(stmts: List[ast.stmt], budget: List[int]) -> Tuple[List[ast.stmt], bool]:
        out: List[ast.stmt] = []
        for i, st in enumerate(stmts):
            if isinstance(st, ast.Continue):
                return out, True
            if isinstance(st, ast.If) and has_cont([st]):
                b1, c1 = elim(st.body, budget)
                b2, c2 = elim(st.orelse, budget)
                rest = stmts[i + 1:]
                if c1 and c2:
                    out.append(ast.copy_location(ast.If(test=st.test, body=b1 or [ast.Pass()], orelse=b2), st))
                    return out, True
                if c1 or c2:
                    r, rc = elim(rest, budget)
                    if c1:
                        new = ast.If(test=st.test, body=b1 or [ast.Pass()], orelse=b2 + r)
                    else:
                        new = ast.If(test=st.test, body=(b1 + r) or [ast.Pass()], orelse=b2)
                    out.append(ast.copy_location(new, st))
                    return out, rc
                # a continue deeper inside one branch: the rest is needed in both
                budget[0] -= len(rest)
                if budget[0] < 0:
                    raise GiveUp()
                r1, rc1 = elim([copy.deepcopy(x) for x in st.body] + [copy.deepcopy(x) for x in rest], budget)
                r2, rc2 = elim([copy.deepcopy(x) for x in st.orelse] + [copy.deepcopy(x) for x in rest], budget)
                out.append(ast.copy_location(ast.If(test=st.test, body=r1 or [ast.Pass()], orelse=r2), st))
                return out, rc1 and rc2
            if has_cont([st]):
                raise GiveUp()
            out.append(st)
        return out, False
    try:
        res, _ = elim([copy.deepcopy(x) for x in body], [60])
    except GiveUp:
        return None
    if has_cont(res):
        return None
    for x in res:
        ast.fix_missing_locations(x)
    return res or [ast.Pass()]


def _bind_target(target: ast.expr, value: ast.expr) -> Optional[Dict[str, ast.expr]]:
    if isinstance(target, ast.Name):
        return {target.id: value}
    if isinstance(target, (ast.Tuple, ast.List)) and isinstance(value, (ast.Tuple, ast.List)) and len(target.elts) == len(value.elts):
        out: Dict[str, ast.expr] = {}
        for t, v in zip(target.elts, value.elts):
            b = _bind_target(t, v)
            if b is None:
                return None
            out.update(b)
        return out
    return None


def unroll(fn: ast.FunctionDef, repo: Optional[Repo] = None, ci: Optional[ClassInfo] = None, sf: Optional[SourceFile] = None) -> ast.FunctionDef:
    """Copy of `fn` with loops and comprehensions over iterables known from the source unrolled, constant-name
    getattr/setattr written as attribute access, and `yield from chain(...)` over known lists split into single
    `yield from`s.  The iteration space must be visible in the code (≤ 16 elements); everything else is left alone."""
    new = _splice_starred_displays(copy.deepcopy(fn))

    def assigned_names(stmts) -> Set[str]:
        return {n.id for st in stmts for n in ast.walk(st) if isinstance(n, ast.Name) and isinstance(n.ctx, (ast.Store, ast.Del))}

    def expr_unroll(e: ast.AST, env) -> ast.AST:
        class X(ast.NodeTransformer):
            def visit_ListComp(self, node):
                node = self.generic_visit(node)
                if len(node.generators) == 1 and not node.generators[0].ifs:
                    g = node.generators[0]
                    els = _literal_elements(repo, ci, g.iter, env, None, sf)
                    if els is not None:
                        out = []
                        for x in els:
                            b = _bind_target(g.target, x)
                            if b is None:
                                return node
                            out.append(_Rename(dict(b)).visit(copy.deepcopy(node.elt)))
                        return ast.copy_location(ast.List(elts=out, ctx=ast.Load()), node)
                return node

            def visit_Call(self, node):
                node = self.generic_visit(node)
                # chain.from_iterable(<generator over known elements>) / list(<generator>)
                f = norm(node.func)
                # f(*[a, b, c])  is  f(a, b, c)
                if any(isinstance(a, ast.Starred) and isinstance(a.value, (ast.List, ast.Tuple)) and not any(isinstance(x, ast.Starred) for x in a.value.elts)
                       for a in node.args):
                    args = []
                    for a in node.args:
                        if isinstance(a, ast.Starred) and isinstance(a.value, (ast.List, ast.Tuple)) and not any(isinstance(x, ast.Starred) for x in a.value.elts):
                            args.extend(a.value.elts)
                        else:
                            args.append(a)
                    node.args = args
                # f(*values) with `values` a list display built in this function
                if any(isinstance(a, ast.Starred) and isinstance(a.value, ast.Name) and a.value.id in env for a in node.args):
                    args = []
                    for a in node.args:
                        if isinstance(a, ast.Starred) and isinstance(a.value, ast.Name) and a.value.id in env:
                            args.extend(copy.deepcopy(x) for x in env[a.value.id])
                        else:
                            args.append(a)
                    node.args = args
                if f.split(".")[-1] in ("from_iterable", "list", "tuple", "chain") and node.args:
                    args = []
                    for a in node.args:
                        if isinstance(a, ast.GeneratorExp):
                            lc = self.visit_ListComp(ast.copy_location(ast.ListComp(elt=a.elt, generators=a.generators), a))
                            args.append(lc)
                        else:
                            args.append(a)
                    node.args = args
                return node
        class St(ast.NodeTransformer):
            """`*(f(n) for n in range(4))` inside a display: the generated elements, spliced in."""
            def visit_Starred(self, node):
                node = self.generic_visit(node)
                if isinstance(node.value, (ast.GeneratorExp, ast.ListComp)) and isinstance(node.ctx, ast.Load):
                    lc = X().visit_ListComp(ast.copy_location(ast.ListComp(elt=node.value.elt, generators=node.value.generators), node.value))
                    if isinstance(lc, (ast.List, ast.Tuple)):
                        node.value = lc
                elif isinstance(node.value, ast.Name) and node.value.id in env and isinstance(node.ctx, ast.Load):
                    # `*xs` with xs a list display built in this function: its elements
                    node.value = ast.copy_location(ast.List(elts=[copy.deepcopy(x) for x in env[node.value.id]], ctx=ast.Load()), node.value)
                return node
        e = St().visit(e)
        return _splice_starred_displays(_AttrConst().visit(X().visit(e)))

    stores: Dict[str, int] = {}
    for n0 in ast.walk(new):
        if isinstance(n0, ast.Name) and isinstance(n0.ctx, (ast.Store, ast.Del)):
            stores[n0.id] = stores.get(n0.id, 0) + 1
    # locals bound exactly once, to the tuple returned by unpack(...)
    indexable: Set[str] = {st0.targets[0].id for st0 in ast.walk(new) if isinstance(st0, ast.Assign) and len(st0.targets) == 1
                           and isinstance(st0.targets[0], ast.Name) and stores.get(st0.targets[0].id) == 1
                           and isinstance(st0.value, ast.Call) and norm(st0.value.func) in ("unpack", "struct.unpack")}

    # locals bound exactly once to a call (`cells = product(...)`) and read exactly once: the call is read at its use
    loads: Dict[str, int] = {}
    for n0 in ast.walk(new):
        if isinstance(n0, ast.Name) and isinstance(n0.ctx, ast.Load):
            loads[n0.id] = loads.get(n0.id, 0) + 1
    once_calls: Dict[str, ast.Call] = {st0.targets[0].id: st0.value for st0 in ast.walk(new) if isinstance(st0, ast.Assign) and len(st0.targets) == 1
                                       and isinstance(st0.targets[0], ast.Name) and stores.get(st0.targets[0].id) == 1
                                       and loads.get(st0.targets[0].id) == 1 and isinstance(st0.value, ast.Call)}

    consumed: Set[str] = set()
    unroll_counter = [0]

    class _RenameAll(ast.NodeTransformer):
        """like _Rename, and a plain-name replacement also renames stores (per-copy loop variables)"""
        def __init__(self, mapping):
            self.mapping = mapping

        def visit_Name(self, node):
            v = self.mapping.get(node.id)
            if v is None:
                return node
            if isinstance(node.ctx, ast.Load):
                return ast.copy_location(copy.deepcopy(v), node)
            if isinstance(v, ast.Name):
                return ast.copy_location(ast.Name(id=v.id, ctx=node.ctx), node)
            return node

        def visit_Lambda(self, node):
            return node

    def block(stmts: List[ast.stmt], env: Dict[str, List[ast.expr]]) -> List[ast.stmt]:
        env = dict(env)
        out: List[ast.stmt] = []
        for st in stmts:
            # --- for (a, b) in product(X, Y)   /   for i, (a, b) in enumerate(product(range(A), range(B)))   read as nested loops
            if isinstance(st, ast.For) and not st.orelse:
                it0 = st.iter
                via = []
                if isinstance(it0, ast.Name) and it0.id in once_calls:
                    via.append(it0.id)
                    it0 = once_calls[it0.id]
                idx = None
                tgt = st.target
                if isinstance(it0, ast.Call) and norm(it0.func) == "enumerate" and len(it0.args) == 1 and not it0.keywords \
                        and isinstance(tgt, ast.Tuple) and len(tgt.elts) == 2 and isinstance(tgt.elts[0], ast.Name):
                    inner0 = it0.args[0]
                    if isinstance(inner0, ast.Name) and inner0.id in once_calls:
                        via.append(inner0.id)
                        inner0 = once_calls[inner0.id]
                    if isinstance(inner0, ast.Call) and norm(inner0.func).split(".")[-1] == "product":
                        idx, tgt, it0 = tgt.elts[0], tgt.elts[1], inner0
                if isinstance(it0, ast.Call) and norm(it0.func).split(".")[-1] == "product" and len(it0.args) == 2 and not it0.keywords \
                        and isinstance(tgt, ast.Tuple) and len(tgt.elts) == 2 and all(isinstance(t, ast.Name) for t in tgt.elts) \
                        and not any(isinstance(n, (ast.Break, ast.Continue)) for b in st.body for n in ast.walk(b)):
                    X_, Y_ = it0.args
                    body = list(st.body)
                    ok = True
                    if idx is not None:
                        if isinstance(Y_, ast.Call) and norm(Y_.func) == "range" and len(Y_.args) == 1 and isinstance(X_, ast.Call) \
                                and norm(X_.func) == "range" and len(X_.args) == 1:
                            pos_e = ast.BinOp(left=ast.BinOp(left=ast.Name(id=tgt.elts[0].id, ctx=ast.Load()), op=ast.Mult(), right=copy.deepcopy(Y_.args[0])),
                                              op=ast.Add(), right=ast.Name(id=tgt.elts[1].id, ctx=ast.Load()))
                            body = [ast.copy_location(ast.Assign(targets=[ast.Name(id=idx.id, ctx=ast.Store())], value=pos_e), st)] + body
                        else:
                            ok = False
                    if ok:
                        inner_loop = ast.copy_location(ast.For(target=tgt.elts[1], iter=Y_, body=body, orelse=[]), st)
                        outer_loop = ast.copy_location(ast.For(target=tgt.elts[0], iter=X_, body=[inner_loop], orelse=[]), st)
                        ast.fix_missing_locations(outer_loop)
                        consumed.update(via)
                        out.extend(block([outer_loop], env))
                        continue
            # --- for x in (A if c else ()): BODY   reads as   if c: for x in A: BODY
            if isinstance(st, ast.For) and not st.orelse and isinstance(st.iter, ast.IfExp):
                def empty(x):
                    return isinstance(x, (ast.Tuple, ast.List)) and not x.elts or (isinstance(x, ast.Constant) and x.value in ((), "", b""))
                ie = st.iter
                if empty(ie.orelse) or empty(ie.body):
                    inner = copy.copy(st)
                    inner.iter = ie.body if empty(ie.orelse) else ie.orelse
                    test = ie.test if empty(ie.orelse) else _negate(copy.deepcopy(ie.test))
                    wrapped = ast.copy_location(ast.If(test=test, body=[inner], orelse=[]), st)
                    out.extend(block([wrapped], env))
                    continue
            # --- for a, b in zip(NAMES, unpack(F, data)): the unpacked tuple gets a name first
            if isinstance(st, ast.For) and not st.orelse and isinstance(st.iter, ast.Call) and norm(st.iter.func) == "zip" \
                    and any(isinstance(a, ast.Call) and norm(a.func) in ("unpack", "struct.unpack") for a in st.iter.args):
                pre_stmts = []
                new_args = []
                for a in st.iter.args:
                    if isinstance(a, ast.Call) and norm(a.func) in ("unpack", "struct.unpack"):
                        tmp = f"__unpacked{len(indexable)}"
                        indexable.add(tmp)
                        pre_stmts.append(ast.copy_location(ast.Assign(targets=[ast.Name(id=tmp, ctx=ast.Store())], value=a), st))
                        new_args.append(ast.Name(id=tmp, ctx=ast.Load()))
                    else:
                        new_args.append(a)
                st = copy.copy(st)
                st.iter = ast.copy_location(ast.Call(func=st.iter.func, args=new_args, keywords=[]), st.iter)
                for ps in pre_stmts:
                    ast.fix_missing_locations(ps)
                    out.append(ps)
            # --- loops over known elements
            if isinstance(st, ast.For) and not st.orelse:
                it = expr_unroll(copy.deepcopy(st.iter), env)
                els = _literal_elements(repo, ci, it, env, indexable, sf)
                def own_flow(stmts) -> bool:
                    for b in stmts:
                        if isinstance(b, (ast.Break, ast.Continue)):
                            return True
                        if isinstance(b, (ast.For, ast.While, ast.AsyncFor, ast.FunctionDef, ast.ClassDef)):
                            continue          # break/continue inside belong to that loop
                        for fld in ("body", "orelse", "finalbody"):
                            if isinstance(getattr(b, fld, None), list) and own_flow(getattr(b, fld)):
                                return True
                        if isinstance(b, ast.Try) and any(own_flow(h.body) for h in b.handlers):
                            return True
                    return False
                has_flow = own_flow(st.body)
                if els is not None and has_flow:
                    nested = _nest_continues(st.body)
                    if not own_flow(nested):
                        st = copy.copy(st)
                        st.body = nested
                        has_flow = False
                if els is not None and not has_flow:
                    ok = True
                    pieces: List[ast.stmt] = []
                    # a loop variable that the body re-binds (`operand = operand.orig`) is a variable, not an abbreviation of the element:
                    # each copy gets its own variable, initialised with the element
                    tnames = {n_.id for n_ in ast.walk(st.target) if isinstance(n_, ast.Name)}
                    rebound_t = {n_.id for s_ in st.body for n_ in ast.walk(s_) if isinstance(n_, ast.Name) and isinstance(n_.ctx, (ast.Store, ast.Del))
                                 and n_.id in tnames}
                    if rebound_t:
                        body_ids = {id(n_) for s_ in st.body for n_ in ast.walk(s_)} | {id(n_) for n_ in ast.walk(st.target)}
                        if any(isinstance(n_, ast.Name) and n_.id in rebound_t and id(n_) not in body_ids for n_ in ast.walk(new)):
                            els = None            # the variable is read after the loop as well: leave the loop as it is
                            ok = False
                    for xi, x in enumerate(els or []):
                        b = _bind_target(st.target, x)
                        if b is None:
                            ok = False
                            break
                        pre_u: List[ast.stmt] = []
                        if rebound_t:
                            b = dict(b)
                            for nm_ in sorted(rebound_t):
                                unroll_counter[0] += 1
                                fresh = f"{nm_}__u{unroll_counter[0]}"
                                pre_u.append(ast.copy_location(ast.Assign(targets=[ast.Name(id=fresh, ctx=ast.Store())], value=copy.deepcopy(b[nm_])), st))
                                b[nm_] = ast.Name(id=fresh, ctx=ast.Load())
                        body = pre_u + [_RenameAll(dict(b)).visit(copy.deepcopy(s)) if rebound_t else _Rename(dict(b)).visit(copy.deepcopy(s)) for s in st.body]
                        for s2 in body:
                            for n2 in ast.walk(s2):
                                n2._synthetic = True
                        pieces.extend(body)
                    if ok:
                        for k in assigned_names(st.body):
                            env.pop(k, None)
                        out.extend(block(pieces, env))
                        continue
            # --- yield from (A if c else B)  is  if c: yield from A / else: yield from B;   yield from [a, b]  is  yield a; yield b
            if isinstance(st, ast.Expr) and isinstance(st.value, ast.YieldFrom) and isinstance(st.value.value, ast.IfExp):
                ie = st.value.value
                a_ = ast.copy_location(ast.Expr(value=ast.YieldFrom(value=ie.body)), st)
                b_ = ast.copy_location(ast.Expr(value=ast.YieldFrom(value=ie.orelse)), st)
                new_if = ast.copy_location(ast.If(test=ie.test, body=[a_], orelse=[b_]), st)
                ast.fix_missing_locations(new_if)
                out.extend(block([new_if], env))
                continue
            if isinstance(st, ast.Expr) and isinstance(st.value, ast.YieldFrom) and isinstance(st.value.value, (ast.List, ast.Tuple)) \
                    and not any(isinstance(x, ast.Starred) for x in st.value.value.elts) and len(st.value.value.elts) <= MAX_UNROLL:
                for x in st.value.value.elts:
                    y_ = ast.copy_location(ast.Expr(value=ast.Yield(value=x)), st)
                    out.append(ast.fix_missing_locations(y_))
                continue
            # --- yield from chain(...)/chain.from_iterable(L) and `for x in L: yield from x`
            if isinstance(st, ast.Expr) and isinstance(st.value, ast.YieldFrom) and isinstance(st.value.value, ast.Call):
                c = st.value.value
                f = norm(c.func)
                parts = None
                if f.split(".")[-1] == "chain" and any(isinstance(a, ast.Starred) for a in c.args) and len(c.args) > 1:
                    c2 = _splice_starred_displays(expr_unroll(copy.deepcopy(c), env))       # chain(a, b, *[x.chunks() for x in KNOWN])
                    if isinstance(c2, ast.Call) and not any(isinstance(a, ast.Starred) for a in c2.args):
                        c = c2
                if f.split(".")[-1] == "from_iterable" and len(c.args) == 1:
                    parts = _literal_elements(None, None, expr_unroll(copy.deepcopy(c.args[0]), env), env)
                elif f.split(".")[-1] == "chain" and c.args and not c.keywords:
                    if len(c.args) == 1 and isinstance(c.args[0], ast.Starred):
                        parts = _literal_elements(None, None, expr_unroll(copy.deepcopy(c.args[0].value), env), env)
                    elif not any(isinstance(a, ast.Starred) for a in c.args):
                        parts = list(c.args)
                if parts is not None:
                    for p in parts:
                        y = ast.Expr(value=ast.YieldFrom(value=copy.deepcopy(p)))
                        out.append(ast.fix_missing_locations(ast.copy_location(y, st)))
                    continue
                if f.split(".")[-1] == "from_iterable" and len(c.args) == 1 and isinstance(c.args[0], (ast.GeneratorExp, ast.ListComp)) \
                        and len(c.args[0].generators) == 1 and not c.args[0].generators[0].is_async:
                    # yield from chain.from_iterable(E for T in XS if c)   is   for T in XS: if c: yield from E
                    g0 = c.args[0].generators[0]
                    inner: List[ast.stmt] = [ast.Expr(value=ast.YieldFrom(value=c.args[0].elt))]
                    for cond in reversed(g0.ifs):
                        inner = [ast.If(test=cond, body=inner, orelse=[])]
                    loop = ast.For(target=g0.target, iter=g0.iter, body=inner, orelse=[])
                    ast.copy_location(loop, st)
                    ast.fix_missing_locations(loop)
                    out.extend(block([loop], env))
                    continue
            # --- a, b = xs / a, b = map(f, xs)   with xs a list built element by element in this function: one element per target
            if isinstance(st, ast.Assign) and len(st.targets) == 1 and isinstance(st.targets[0], (ast.Tuple, ast.List)) \
                    and not any(isinstance(t, ast.Starred) for t in st.targets[0].elts):
                v0 = st.value
                fcall = None
                if isinstance(v0, ast.Call) and norm(v0.func) == "map" and len(v0.args) == 2 and not v0.keywords and isinstance(v0.args[0], (ast.Name, ast.Attribute)):
                    fcall, v0 = v0.args[0], v0.args[1]
                if isinstance(v0, ast.Name) and v0.id in env and len(env[v0.id]) == len(st.targets[0].elts) \
                        and all(isinstance(x, (ast.Name, ast.Constant, ast.Attribute)) for x in env[v0.id]):
                    elts = [copy.deepcopy(x) for x in env[v0.id]]
                    if fcall is not None:
                        elts = [ast.Call(func=copy.deepcopy(fcall), args=[x], keywords=[]) for x in elts]
                    st = copy.copy(st)
                    st.value = ast.copy_location(ast.Tuple(elts=elts, ctx=ast.Load()), st.value)
                    out.append(ast.fix_missing_locations(st))
                    for k in assigned_names([st]):
                        env.pop(k, None)
                    continue
            # --- a, b, c = (f(k) for k in (K1, K2, K3)): the generated elements, one per target
            if isinstance(st, ast.Assign) and len(st.targets) == 1 and isinstance(st.targets[0], (ast.Tuple, ast.List)) \
                    and isinstance(st.value, (ast.GeneratorExp, ast.ListComp)) and not any(isinstance(t, ast.Starred) for t in st.targets[0].elts):
                lc = expr_unroll(ast.copy_location(ast.ListComp(elt=copy.deepcopy(st.value.elt), generators=copy.deepcopy(st.value.generators)), st.value), env)
                if isinstance(lc, (ast.List, ast.Tuple)) and len(lc.elts) == len(st.targets[0].elts) and not any(isinstance(x, ast.Starred) for x in lc.elts):
                    st = copy.copy(st)
                    st.value = ast.copy_location(ast.Tuple(elts=list(lc.elts), ctx=ast.Load()), st.value)
                    out.append(ast.fix_missing_locations(st))
                    continue
            # --- list accumulation in straight-line code
            if isinstance(st, ast.Assign) and len(st.targets) == 1 and isinstance(st.targets[0], ast.Name):
                v = expr_unroll(copy.deepcopy(st.value), env)
                st = copy.copy(st)
                st.value = v
                if isinstance(v, (ast.List, ast.Tuple)) and not any(isinstance(x, ast.Starred) for x in v.elts):
                    env[st.targets[0].id] = list(v.elts)
                else:
                    env.pop(st.targets[0].id, None)
                out.append(st)
                continue
            if isinstance(st, ast.AugAssign) and isinstance(st.target, ast.Name) and isinstance(st.op, ast.Add):
                v = expr_unroll(copy.deepcopy(st.value), env)
                st = copy.copy(st)
                st.value = v
                if st.target.id in env and isinstance(v, (ast.List, ast.Tuple)):
                    env[st.target.id] = env[st.target.id] + list(v.elts)
                else:
                    env.pop(st.target.id, None)
                out.append(st)
                continue
            if isinstance(st, ast.Expr) and isinstance(st.value, ast.Call) and isinstance(st.value.func, ast.Attribute) \
                    and isinstance(st.value.func.value, ast.Name) and st.value.func.value.id in env and len(st.value.args) == 1:
                nm, m = st.value.func.value.id, st.value.func.attr
                a = expr_unroll(copy.deepcopy(st.value.args[0]), env)
                if m == "append":
                    env[nm] = env[nm] + [a]
                elif m == "extend" and isinstance(a, (ast.List, ast.Tuple)):
                    env[nm] = env[nm] + list(a.elts)
                else:
                    env.pop(nm, None)
                out.append(st)
                continue
            # --- compound statements: recurse, forget lists assigned or mutated inside.  A list known before the statement is known
            # inside a branch only as far as that branch itself goes (each nested block works on its own copy), and a loop body
            # starts without the lists it changes (its second iteration sees what the first one did).
            st = copy.copy(st)
            mutated = assigned_names([st]) | {c_.func.value.id for c_ in ast.walk(st) if isinstance(c_, ast.Call) and isinstance(c_.func, ast.Attribute)
                                               and isinstance(c_.func.value, ast.Name)} | \
                {t_.value.id for t_ in ast.walk(st) if isinstance(t_, ast.Subscript) and isinstance(t_.ctx, (ast.Store, ast.Del)) and isinstance(t_.value, ast.Name)}
            if isinstance(st, (ast.For, ast.AsyncFor, ast.While)):
                for k in mutated:
                    env.pop(k, None)
            for fld in ("body", "orelse", "finalbody"):
                if hasattr(st, fld) and isinstance(getattr(st, fld), list) and not isinstance(st, (ast.FunctionDef, ast.ClassDef)):
                    setattr(st, fld, block(getattr(st, fld), dict(env)))
            if isinstance(st, ast.Try):
                for h in st.handlers:
                    h.body = block(h.body, dict(env))
            if isinstance(st, (ast.If, ast.While)):
                st.test = expr_unroll(st.test, env)
            elif isinstance(st, (ast.For,)):
                st.iter = expr_unroll(st.iter, env)
            elif not isinstance(st, (ast.With, ast.Try, ast.FunctionDef, ast.ClassDef)):
                st = expr_unroll(st, env)
            if isinstance(st, (ast.If, ast.For, ast.While, ast.With, ast.Try, ast.AsyncFor, ast.AsyncWith)):
                for k in mutated:
                    env.pop(k, None)
            out.append(st)
        return out

    new.body = block(new.body, {}) or [ast.Pass()]
    if consumed:
        class Drop(ast.NodeTransformer):
            def visit_Assign(self, node):
                if len(node.targets) == 1 and isinstance(node.targets[0], ast.Name) and node.targets[0].id in consumed:
                    return None
                return node
        Drop().visit(new)
        if not new.body:
            new.body = [ast.Pass()]
    ast.fix_missing_locations(new)
    number(new)
    return new


def expand_aliases(fn: ast.FunctionDef) -> ast.FunctionDef:
    """Copy of `fn` in which a local that abbreviates an attribute chain (`modules = self.object.modules`, bound once,
    outside loops, the chain not re-assigned in the function) is replaced by the chain."""
    new = copy.deepcopy(fn)
    cnt: Dict[str, int] = {}
    banned: Set[str] = {a.arg for a in new.args.args}
    stored_chains: Set[str] = set()
    for n in ast.walk(new):
        if isinstance(n, ast.Name) and isinstance(n.ctx, (ast.Store, ast.Del)):
            cnt[n.id] = cnt.get(n.id, 0) + 1
        if isinstance(n, (ast.For, ast.AsyncFor, ast.comprehension)):
            for m in ast.walk(n.target):
                if isinstance(m, ast.Name):
                    banned.add(m.id)
        if isinstance(n, ast.Attribute) and isinstance(n.ctx, ast.Store):
            stored_chains.add(norm(n))
    alias: Dict[str, ast.expr] = {}
    chain_stores: Dict[str, int] = {}
    for n in ast.walk(new):
        if isinstance(n, ast.Attribute) and isinstance(n.ctx, ast.Store):
            chain_stores[norm(n)] = chain_stores.get(norm(n), 0) + 1
    for st in new.body:
        # chunk = self._current = Chunk():  `chunk` abbreviates `self._current` from here on (both bound once)
        if isinstance(st, ast.Assign) and len(st.targets) == 2:
            names = [t for t in st.targets if isinstance(t, ast.Name)]
            attrs = [t for t in st.targets if isinstance(t, ast.Attribute)]
            later_stores = [n for n in ast.walk(new) if isinstance(n, ast.Attribute) and isinstance(n.ctx, ast.Store)
                            and norm(n) == norm(attrs[0]) and pos(n) > getattr(st, "_seq_end", pos(st))] if attrs else []
            if len(names) == 1 and len(attrs) == 1 and cnt.get(names[0].id) == 1 and names[0].id not in banned \
                    and not later_stores and norm(attrs[0]).startswith("self."):
                alias[names[0].id] = ast.Attribute(value=attrs[0].value, attr=attrs[0].attr, ctx=ast.Load())
                st.targets = attrs
            continue
        if isinstance(st, ast.Assign) and len(st.targets) == 1 and isinstance(st.targets[0], ast.Name):
            nm, v = st.targets[0].id, st.value
            chain = v
            ok = isinstance(v, ast.Attribute)
            while isinstance(chain, ast.Attribute):
                chain = chain.value
            if ok and isinstance(chain, ast.Name) and cnt.get(nm) == 1 and nm not in banned \
                    and (chain.id == "self" or chain.id in {a.arg for a in new.args.args}):
                if norm(v) not in stored_chains:
                    alias[nm] = v
                else:
                    # the chain is re-assigned in this function: the abbreviation is still exact if every use of it comes first
                    first_store = min(pos(n) for n in ast.walk(new) if isinstance(n, ast.Attribute) and isinstance(n.ctx, ast.Store) and norm(n) == norm(v))
                    uses = [n for n in ast.walk(new) if isinstance(n, ast.Name) and n.id == nm and isinstance(n.ctx, ast.Load)]
                    in_loop = any(isinstance(lp, (ast.For, ast.While)) and any(u is x for u in uses for x in ast.walk(lp)) for lp in ast.walk(new))
                    if uses and all(pos(u) < first_store for u in uses) and not in_loop and pos(st) < first_store:
                        alias[nm] = v
    # the same abbreviation taken inside a branch (`else: envs = self.effect_control_envelopes; …`), not in a loop: every use in the
    # later statements of that branch
    nested_drop: List[ast.stmt] = []
    for stmts_, loops_, cond_ in _stmt_lists(new):
        if loops_ or stmts_ is new.body:
            continue
        for j_, st in enumerate(stmts_):
            if isinstance(st, ast.Assign) and len(st.targets) == 1 and isinstance(st.targets[0], ast.Name) and isinstance(st.value, ast.Attribute):
                nm, v = st.targets[0].id, st.value
                chain = v
                while isinstance(chain, ast.Attribute):
                    chain = chain.value
                if not (isinstance(chain, ast.Name) and chain.id == "self") or cnt.get(nm) != 1 or nm in banned or nm in alias or norm(v) in stored_chains:
                    continue
                later_ = {id(x) for s2 in stmts_[j_ + 1:] for x in ast.walk(s2)}
                uses_ = [n for n in ast.walk(new) if isinstance(n, ast.Name) and n.id == nm and isinstance(n.ctx, ast.Load)]
                if uses_ and all(id(u) in later_ for u in uses_):
                    alias[nm] = v
                    nested_drop.append(st)
    if nested_drop:
        class _ND(ast.NodeTransformer):
            def visit_Assign(self, node):
                if any(node is d for d in nested_drop):
                    return ast.copy_location(ast.Pass(), node)
                return node
        new = _ND().visit(new)
    # inside a loop body: `slots = mod.in_link_slots` (chain rooted at the loop variable, self or a parameter; the local bound once in
    # the function, used only later in the same body; the chain never re-assigned) abbreviates the chain for the rest of the iteration
    roots_ok = {"self"} | {a.arg for a in new.args.args}
    for lp in [n for n in ast.walk(new) if isinstance(n, (ast.For, ast.AsyncFor))]:
        lvars = {m.id for m in ast.walk(lp.target) if isinstance(m, ast.Name)}
        # the loop variable is bound by this loop only while its body runs (another loop may reuse the name elsewhere)
        if any(isinstance(m, ast.Name) and m.id in lvars and isinstance(m.ctx, (ast.Store, ast.Del)) for b in lp.body + lp.orelse for m in ast.walk(b)):
            continue
        drop = []
        cand = list(lp.body)
        # … also directly inside an `if` of the body (`if mod: slots = mod.in_link_slots; for …`), uses confined to that branch
        nested_lists = [blk for st0 in lp.body if isinstance(st0, ast.If) for blk in (st0.body, st0.orelse)]
        for blk in nested_lists:
            for j, st in enumerate(blk):
                if isinstance(st, ast.Assign) and len(st.targets) == 1 and isinstance(st.targets[0], ast.Name) and isinstance(st.value, ast.Attribute):
                    nm0 = st.targets[0].id
                    later0 = {id(x) for s2 in blk[j + 1:] for x in ast.walk(s2)}
                    uses0 = [n for n in ast.walk(new) if isinstance(n, ast.Name) and n.id == nm0 and isinstance(n.ctx, ast.Load)]
                    if uses0 and all(id(u) in later0 for u in uses0):
                        cand.append(st)
        for st in cand:
            if not (isinstance(st, ast.Assign) and len(st.targets) == 1 and isinstance(st.targets[0], ast.Name) and isinstance(st.value, ast.Attribute)):
                continue
            nm, v = st.targets[0].id, st.value
            chain = v
            while isinstance(chain, ast.Attribute):
                chain = chain.value
            if not (isinstance(chain, ast.Name) and (chain.id in lvars or chain.id in roots_ok)) or cnt.get(nm) != 1 or nm in banned or nm in alias:
                continue
            if norm(v) in stored_chains:
                continue
            uses = [n for n in ast.walk(new) if isinstance(n, ast.Name) and n.id == nm and isinstance(n.ctx, ast.Load)]
            inside = {id(x) for x in ast.walk(lp)}
            if uses and all(id(u) in inside and pos(u) > pos(st) for u in uses):
                alias[nm] = v
                drop.append(st)
        if drop:
            lp.body = [x for x in lp.body if not any(x is d for d in drop)] or [ast.Pass()]
            for st0 in lp.body:
                if isinstance(st0, ast.If):
                    st0.body = [x for x in st0.body if not any(x is d for d in drop)] or [ast.Pass()]
                    st0.orelse = [x for x in st0.orelse if not any(x is d for d in drop)]
    if not alias:
        return new
    new.body = [st for st in new.body if not (isinstance(st, ast.Assign) and len(st.targets) == 1 and isinstance(st.targets[0], ast.Name)
                                              and st.targets[0].id in alias)]
    new = _Rename(dict(alias)).visit(new)
    ast.fix_missing_locations(new)
    number(new)
    return new


FOLD_NAMED_INTS = True
_INT_CONSTS: Dict[Tuple[int, str], Dict[str, int]] = {}


def _module_int_constants(repo: Repo, sf: SourceFile) -> Dict[str, int]:
    """UPPER_CASE module-level names (own or imported from the package) bound once to an expression that folds to an int."""
    key = (id(repo), sf.rel)
    if key in _INT_CONSTS:
        return _INT_CONSTS[key]
    out: Dict[str, int] = {}
    names: Set[str] = set()
    counts: Dict[str, int] = {}
    for n in sf.tree.body:
        if isinstance(n, ast.Assign):
            for t in n.targets:
                if isinstance(t, ast.Name):
                    counts[t.id] = counts.get(t.id, 0) + 1
                    names.add(t.id)
        elif isinstance(n, ast.AnnAssign) and isinstance(n.target, ast.Name):
            counts[n.target.id] = counts.get(n.target.id, 0) + 1
            names.add(n.target.id)
    for nm, imp in sf.imports.items():
        if imp[1] and imp[0] in repo.by_mod:
            names.add(nm)
    globals_written = {g for f in ast.walk(sf.tree) if isinstance(f, ast.Global) for g in f.names}
    for nm in names:
        if nm.upper() != nm or not any(c.isalpha() for c in nm) or counts.get(nm, 1) != 1 or nm in globals_written:
            continue
        try:
            v = repo.fold(ast.Name(id=nm, ctx=ast.Load()), sf=sf)
        except Exception:
            continue
        if isinstance(v, int) and not isinstance(v, bool):
            out[nm] = v
        elif isinstance(v, bytes) and len(v) <= 4:
            out[nm] = v                 # `_NUL = b"\0"`: a named byte string reads as its value too
    _INT_CONSTS[key] = out
    return out


def _class_int_constants(repo: Repo, ci: ClassInfo) -> Dict[str, int]:
    """UPPER_CASE integer constants of the class body (own or inherited) that `self.NAME` / `cls.NAME` can only mean: no subclass
    rebinds the name and nothing in the package stores to an attribute of that name."""
    cache = repo.__dict__.setdefault("_class_int_consts", {})
    key = id(ci)
    if key in cache:
        return cache[key]
    stored = repo.__dict__.get("_stored_attr_names")
    if stored is None:
        stored = set()
        for f in repo.files.values() if isinstance(getattr(repo, "files", None), dict) else []:
            for n in ast.walk(f.tree):
                if isinstance(n, ast.Attribute) and isinstance(n.ctx, (ast.Store, ast.Del)):
                    stored.add(n.attr)
                elif isinstance(n, ast.Call) and norm(n.func) in ("setattr", "delattr") and len(n.args) >= 2:
                    stored.add(n.args[1].value if isinstance(n.args[1], ast.Constant) else "*")
        repo.__dict__["_stored_attr_names"] = stored
    out: Dict[str, int] = {}
    try:
        mro = repo.mro(ci)
        subs = repo.subclasses(ci.name) if not ci.outer else [c for c in repo.all_classes() if c is not ci and ci in repo.mro(c)]
    except Exception:
        cache[key] = out
        return out
    seen = set()
    for c in mro:
        for nm, expr in c.assigns.items():
            if nm in seen:
                continue
            seen.add(nm)
            if nm.upper() != nm or not any(ch.isalpha() for ch in nm) or nm in stored:
                continue
            if any(nm in k.assigns or nm in k.methods or nm in k.getters for k in subs if k is not c):
                continue
            try:
                v = repo.fold(expr, ci=c)
            except Exception:
                continue
            if isinstance(v, int) and not isinstance(v, bool):
                out[nm] = v
        seen |= set(c.methods) | set(c.getters)
    cache[key] = out
    return out


def desugar_walrus(fn: ast.FunctionDef) -> ast.FunctionDef:
    """`if (x := E) …:` reads as `x = E` followed by `if x …:` when the assignment expression is evaluated first and
    unconditionally in the test (the test itself, the left operand of a comparison, the first operand of and/or, under `not`);
    likewise in the value of an assignment / expression statement / return.  `while` tests and comprehensions are left alone."""
    if not any(isinstance(n, ast.NamedExpr) for n in ast.walk(fn)):
        return fn
    new = copy.deepcopy(fn)

    def first_evaluated(e: ast.expr) -> Optional[ast.NamedExpr]:
        """the NamedExpr evaluated first and always when e is evaluated, with nothing evaluated before it."""
        if isinstance(e, ast.NamedExpr):
            return e if isinstance(e.target, ast.Name) and not any(isinstance(x, ast.NamedExpr) for x in ast.walk(e.value)) else None
        if isinstance(e, ast.Compare):
            return first_evaluated(e.left)
        if isinstance(e, ast.BoolOp):
            return first_evaluated(e.values[0])
        if isinstance(e, ast.UnaryOp):
            return first_evaluated(e.operand)
        if isinstance(e, ast.BinOp):
            return first_evaluated(e.left)
        if isinstance(e, ast.Call) and isinstance(e.func, ast.Name) and e.args and not isinstance(e.args[0], ast.Starred):
            return first_evaluated(e.args[0])
        if isinstance(e, ast.Subscript):
            return first_evaluated(e.value)
        if isinstance(e, ast.Attribute):
            return first_evaluated(e.value)
        return None

    class R(ast.NodeTransformer):
        def __init__(self, target):
            self.target = target

        def visit_NamedExpr(self, node):
            if node is self.target:
                return ast.copy_location(ast.Name(id=node.target.id, ctx=ast.Load()), node)
            return self.generic_visit(node)

        def visit_Lambda(self, node):
            return node

    def block(stmts: List[ast.stmt]) -> List[ast.stmt]:
        out: List[ast.stmt] = []
        for st in stmts:
            for _ in range(4):
                holder = "test" if isinstance(st, ast.If) else "value" if isinstance(st, (ast.Assign, ast.Expr, ast.Return, ast.AugAssign)) else None
                e = getattr(st, holder, None) if holder else None
                ne = first_evaluated(e) if e is not None else None
                if ne is None:
                    break
                out.append(ast.copy_location(ast.Assign(targets=[ast.Name(id=ne.target.id, ctx=ast.Store())], value=ne.value), st))
                setattr(st, holder, R(ne).visit(e))
            for fld in ("body", "orelse", "finalbody"):
                sub = getattr(st, fld, None)
                if isinstance(sub, list) and sub and isinstance(sub[0], ast.stmt) and not isinstance(st, (ast.FunctionDef, ast.ClassDef)):
                    setattr(st, fld, block(sub))
            if isinstance(st, ast.Try):
                for h in st.handlers:
                    h.body = block(h.body)
            out.append(st)
        return out
    new.body = block(new.body)
    ast.fix_missing_locations(new)
    number(new)
    return new


def forward_unpacked_calls(fn: ast.FunctionDef) -> ast.FunctionDef:
    """`fields = unpack(F, data)` bound once and read once, as the whole right-hand side of `a, b, c = fields` in the same block
    with nothing but plain statements in between: read as `a, b, c = unpack(F, data)`."""
    stores: Dict[str, int] = {}
    loads: Dict[str, int] = {}
    for n in ast.walk(fn):
        if isinstance(n, ast.Name):
            d = loads if isinstance(n.ctx, ast.Load) else stores
            d[n.id] = d.get(n.id, 0) + 1
    cands = {n.targets[0].id for n in ast.walk(fn) if isinstance(n, ast.Assign) and len(n.targets) == 1 and isinstance(n.targets[0], ast.Name)
             and isinstance(n.value, ast.Call) and stores.get(n.targets[0].id) == 1 and loads.get(n.targets[0].id) == 1}
    if not cands:
        return fn
    new = copy.deepcopy(fn)
    changed = [False]

    def block(stmts: List[ast.stmt]) -> List[ast.stmt]:
        out: List[ast.stmt] = []
        pending: Dict[str, ast.Assign] = {}
        for st in stmts:
            if isinstance(st, ast.Assign) and len(st.targets) == 1 and isinstance(st.targets[0], (ast.Tuple, ast.List)) and isinstance(st.value, ast.Name) \
                    and st.value.id in pending:
                src = pending.pop(st.value.id)
                out.remove(src)
                st.value = src.value
                changed[0] = True
            elif isinstance(st, ast.Assign) and len(st.targets) == 1 and isinstance(st.targets[0], ast.Name) and st.targets[0].id in cands \
                    and isinstance(st.value, ast.Call):
                pending[st.targets[0].id] = st
            elif not isinstance(st, (ast.Assign, ast.AugAssign, ast.AnnAssign, ast.Expr, ast.Pass)):
                pending.clear()
            for fld in ("body", "orelse", "finalbody"):
                sub = getattr(st, fld, None)
                if isinstance(sub, list) and sub and isinstance(sub[0], ast.stmt) and not isinstance(st, (ast.FunctionDef, ast.ClassDef)):
                    setattr(st, fld, block(sub))
            if isinstance(st, ast.Try):
                for h in st.handlers:
                    h.body = block(h.body)
            out.append(st)
        return out
    new.body = block(new.body)
    if not changed[0]:
        return fn
    ast.fix_missing_locations(new)
    number(new)
    return new


def desugar_takewhile(fn: ast.FunctionDef) -> ast.FunctionDef:
    """`for T in takewhile(lambda x: P(x), XS): BODY` reads as `for T in XS: if not P(T): break; BODY` (T written as an expression;
    `(a, b)[0]` folded to `a`); `dropwhile` is not touched."""
    if not any(isinstance(n, ast.Call) and norm(n.func).split(".")[-1] == "takewhile" for n in ast.walk(fn)):
        return fn
    new = copy.deepcopy(fn)
    # `xs = takewhile(…)` bound once and read once, as the iterable of a loop: the call is read at the loop
    from .packed import single_defs as _sd_tw
    defs_tw = _sd_tw(new)
    loads_tw: Dict[str, int] = {}
    for n in ast.walk(new):
        if isinstance(n, ast.Name) and isinstance(n.ctx, ast.Load):
            loads_tw[n.id] = loads_tw.get(n.id, 0) + 1
    moved: Set[str] = set()
    for lp in [n for n in ast.walk(new) if isinstance(n, ast.For)]:
        if isinstance(lp.iter, ast.Name) and loads_tw.get(lp.iter.id) == 1 and isinstance(defs_tw.get(lp.iter.id), ast.Call) \
                and norm(defs_tw[lp.iter.id].func).split(".")[-1] == "takewhile":
            moved.add(lp.iter.id)
            lp.iter = copy.deepcopy(defs_tw[lp.iter.id])
    if moved:
        for n in ast.walk(new):
            for fld in ("body", "orelse", "finalbody"):
                sub = getattr(n, fld, None)
                if isinstance(sub, list) and sub and isinstance(sub[0], ast.stmt):
                    kept = [st for st in sub if not (isinstance(st, ast.Assign) and len(st.targets) == 1 and isinstance(st.targets[0], ast.Name)
                                                     and st.targets[0].id in moved)]
                    setattr(n, fld, kept or ([ast.Pass()] if fld == "body" else []))

    def as_load(t: ast.expr) -> Optional[ast.expr]:
        if isinstance(t, ast.Name):
            return ast.Name(id=t.id, ctx=ast.Load())
        if isinstance(t, (ast.Tuple, ast.List)):
            els = [as_load(x) for x in t.elts]
            if any(x is None for x in els):
                return None
            return ast.Tuple(elts=els, ctx=ast.Load())
        return None

    class Fold(ast.NodeTransformer):
        def visit_Subscript(self, node):
            node = self.generic_visit(node)
            if isinstance(node.value, ast.Tuple) and isinstance(node.slice, ast.Constant) and isinstance(node.slice.value, int) \
                    and 0 <= node.slice.value < len(node.value.elts) and not any(isinstance(x, ast.Starred) for x in node.value.elts):
                return node.value.elts[node.slice.value]
            return node
    for lp in [n for n in ast.walk(new) if isinstance(n, ast.For)]:
        it = lp.iter
        if not (isinstance(it, ast.Call) and norm(it.func).split(".")[-1] == "takewhile" and len(it.args) == 2 and not it.keywords):
            continue
        pred, xs = it.args
        if not (isinstance(pred, ast.Lambda) and len(pred.args.args) == 1 and not pred.args.defaults and not pred.args.vararg and not pred.args.kwarg):
            continue
        tl = as_load(lp.target)
        if tl is None:
            continue
        test = Fold().visit(_Rename({pred.args.args[0].arg: tl}).visit(copy.deepcopy(pred.body)))
        guard = ast.If(test=_negate(test), body=[ast.Break()], orelse=[])
        ast.copy_location(guard, lp)
        lp.iter = xs
        lp.body = [guard] + lp.body
    ast.fix_missing_locations(new)
    number(new)
    return new


def desugar_idioms(fn: ast.FunctionDef) -> ast.FunctionDef:
    """Exact rewrites of two spellings into the forms the rules read:
       X + b"\\0" * (N - len(X))                       →  X.ljust(N, b"\\0")         (a negative count gives b"", as ljust does)
       try: v = a.attr  except AttributeError: v = D   →  v = getattr(a, "attr", D)   (a a plain name)"""
    new = None

    def is_pad(e: ast.AST) -> Optional[ast.expr]:
        if not (isinstance(e, ast.BinOp) and isinstance(e.op, ast.Add)):
            return None
        x, r = e.left, e.right
        if isinstance(r, ast.BinOp) and isinstance(r.op, ast.Mult):
            c, n = (r.left, r.right) if isinstance(r.left, ast.Constant) else (r.right, r.left)
            if isinstance(c, ast.Constant) and isinstance(c.value, bytes) and len(c.value) == 1 and isinstance(n, ast.BinOp) and isinstance(n.op, ast.Sub) \
                    and isinstance(n.right, ast.Call) and norm(n.right.func) == "len" and len(n.right.args) == 1 and norm(n.right.args[0]) == norm(x) \
                    and not any(isinstance(y, ast.Call) and not (isinstance(y.func, ast.Attribute) and y.func.attr in ("encode", "decode")) for y in ast.walk(x)):
                return ast.Call(func=ast.Attribute(value=x, attr="ljust", ctx=ast.Load()), args=[n.left, c], keywords=[])
        return None

    class P(ast.NodeTransformer):
        def visit_BinOp(self, node):
            node = self.generic_visit(node)
            r = is_pad(node)
            return ast.copy_location(r, node) if r is not None else node

        def visit_Try(self, node):
            node = self.generic_visit(node)
            if len(node.body) == 1 and len(node.handlers) == 1 and not node.orelse and not node.finalbody:
                b, h = node.body[0], node.handlers[0]
                if isinstance(b, ast.Assign) and len(b.targets) == 1 and isinstance(b.targets[0], ast.Name) and isinstance(b.value, ast.Attribute) \
                        and isinstance(b.value.value, ast.Name) and h.type is not None and norm(h.type) == "AttributeError" and h.name is None \
                        and len(h.body) == 1 and isinstance(h.body[0], ast.Assign) and len(h.body[0].targets) == 1 \
                        and norm(h.body[0].targets[0]) == norm(b.targets[0]) and isinstance(h.body[0].value, (ast.Name, ast.Constant, ast.Attribute)):
                    call = ast.Call(func=ast.Name(id="getattr", ctx=ast.Load()),
                                    args=[b.value.value, ast.Constant(value=b.value.attr), h.body[0].value], keywords=[])
                    return ast.copy_location(ast.Assign(targets=b.targets, value=call), node)
            return node
    if any(isinstance(n, ast.Try) for n in ast.walk(fn)) or any(is_pad(n) is not None for n in ast.walk(fn)):
        new = P().visit(copy.deepcopy(fn))
        ast.fix_missing_locations(new)
        number(new)
    # X[slice(a, b)] is X[a:b]  (also through a local bound once to the slice object)
    cur = new or fn
    if any(isinstance(n, ast.Call) and isinstance(n.func, ast.Name) and n.func.id == "slice" for n in ast.walk(cur)):
        from .packed import single_defs as _sd_sl
        sdefs = {k: v for k, v in _sd_sl(cur).items() if isinstance(v, ast.Call) and isinstance(v.func, ast.Name) and v.func.id == "slice"
                 and 1 <= len(v.args) <= 3 and not v.keywords}

        def as_slice(c: ast.Call) -> ast.Slice:
            a = list(c.args)
            none = lambda x: None if (isinstance(x, ast.Constant) and x.value is None) else x
            if len(a) == 1:
                return ast.Slice(lower=None, upper=none(a[0]), step=None)
            return ast.Slice(lower=none(a[0]), upper=none(a[1]), step=none(a[2]) if len(a) == 3 else None)

        class S(ast.NodeTransformer):
            def visit_Subscript(self, node):
                node = self.generic_visit(node)
                sl = node.slice
                if isinstance(sl, ast.Name) and sl.id in sdefs:
                    sl = copy.deepcopy(sdefs[sl.id])
                if isinstance(sl, ast.Call) and isinstance(sl.func, ast.Name) and sl.func.id == "slice" and 1 <= len(sl.args) <= 3 and not sl.keywords:
                    node.slice = as_slice(sl)
                return node
        new = S().visit(copy.deepcopy(cur))
        ast.fix_missing_locations(new)
        number(new)
    return new or fn


def desugar_match(fn: ast.FunctionDef) -> ast.FunctionDef:
    """`match S: case P [if G]: B …` over value / singleton / or / wildcard / capture / class patterns reads as the if-elif
    chain it abbreviates (`S == v`, `S is None`, `… or …`, `True`, `isinstance(S, K) and …`).  The subject is evaluated once: a
    subject that is not a plain name / attribute chain is bound to a temporary first.  Sequence and mapping patterns are not
    desugared: such a statement stays as written."""
    if not any(isinstance(n, ast.Match) for n in ast.walk(fn)):
        return fn
    new = copy.deepcopy(fn)
    counter = [0]

    class Unsupported(Exception):
        pass

    def test_of(subj: ast.expr, pat: ast.pattern, binds: List[Tuple[str, ast.expr]]) -> Optional[ast.expr]:
        """the test (None = always true) for `subj` matching `pat`; captures are appended to binds."""
        if isinstance(pat, ast.MatchValue):
            return ast.Compare(left=copy.deepcopy(subj), ops=[ast.Eq()], comparators=[copy.deepcopy(pat.value)])
        if isinstance(pat, ast.MatchSingleton):
            return ast.Compare(left=copy.deepcopy(subj), ops=[ast.Is()], comparators=[ast.Constant(value=pat.value)])
        if isinstance(pat, ast.MatchAs):
            t = None if pat.pattern is None else test_of(subj, pat.pattern, binds)
            if pat.name is not None:
                binds.append((pat.name, copy.deepcopy(subj)))
            return t
        if isinstance(pat, ast.MatchOr):
            sub_binds: List[Tuple[str, ast.expr]] = []
            tests = [test_of(subj, p_, sub_binds) for p_ in pat.patterns]
            if sub_binds:
                raise Unsupported("captures inside an or-pattern")
            if any(t is None for t in tests):
                return None
            return ast.BoolOp(op=ast.Or(), values=tests)
        if isinstance(pat, ast.MatchClass) and not pat.patterns:
            tests: List[ast.expr] = [ast.Call(func=ast.Name(id="isinstance", ctx=ast.Load()), args=[copy.deepcopy(subj), copy.deepcopy(pat.cls)], keywords=[])]
            for attr, sub in zip(pat.kwd_attrs, pat.kwd_patterns):
                t = test_of(ast.Attribute(value=copy.deepcopy(subj), attr=attr, ctx=ast.Load()), sub, binds)
                if t is not None:
                    tests.append(t)
            return tests[0] if len(tests) == 1 else ast.BoolOp(op=ast.And(), values=tests)
        raise Unsupported(type(pat).__name__)

    def simple(e: ast.expr) -> bool:
        return isinstance(e, ast.Name) or (isinstance(e, ast.Attribute) and simple(e.value))

    def rewrite(m: ast.Match) -> Optional[List[ast.stmt]]:
        pre: List[ast.stmt] = []
        subj = m.subject
        if not simple(subj):
            counter[0] += 1
            nm = f"__match{counter[0]}"
            pre.append(ast.copy_location(ast.Assign(targets=[ast.Name(id=nm, ctx=ast.Store())], value=subj), m))
            subj = ast.Name(id=nm, ctx=ast.Load())
        # the chain is built from the last case backwards
        chain: List[ast.stmt] = []
        try:
            for case in reversed(m.cases):
                binds: List[Tuple[str, ast.expr]] = []
                t = test_of(subj, case.pattern, binds)
                body = [ast.copy_location(ast.Assign(targets=[ast.Name(id=n_, ctx=ast.Store())], value=v_), m) for n_, v_ in binds] + block(case.body)
                if case.guard is not None:
                    if binds:
                        # the guard may read the captures, which are bound only in the body here: substitute them
                        g = _Rename({n_: v_ for n_, v_ in binds}).visit(copy.deepcopy(case.guard))
                    else:
                        g = case.guard
                    t = g if t is None else ast.BoolOp(op=ast.And(), values=[t, g])
                if t is None:
                    chain = body               # irrefutable: everything after it is unreachable
                else:
                    chain = [ast.copy_location(ast.If(test=t, body=body, orelse=chain), case.pattern)]
        except Unsupported:
            return None
        return pre + chain

    def block(stmts: List[ast.stmt]) -> List[ast.stmt]:
        out: List[ast.stmt] = []
        for st in stmts:
            if isinstance(st, ast.Match):
                r = rewrite(st)
                if r is not None:
                    out.extend(r)
                    continue
                for case in st.cases:
                    case.body = block(case.body)
                out.append(st)
                continue
            for fld in ("body", "orelse", "finalbody"):
                sub = getattr(st, fld, None)
                if isinstance(sub, list) and sub and isinstance(sub[0], ast.stmt) and not isinstance(st, (ast.ClassDef,)):
                    setattr(st, fld, block(sub))
            if isinstance(st, ast.Try):
                for h in st.handlers:
                    h.body = block(h.body)
            out.append(st)
        return out or [ast.Pass()]
    new.body = block(new.body)
    ast.fix_missing_locations(new)
    number(new)
    return new


def normalize(repo: Repo, ci: Optional[ClassInfo], fn: ast.FunctionDef, sf: Optional[SourceFile] = None, aliases: bool = True, **kw) -> ast.FunctionDef:
    """flatten, then unroll (and, on request, expand attribute-chain aliases): the form in which rules read a function."""
    out = _flatten_only(repo, ci, deannotate(fn), sf, **kw)
    if any(isinstance(n, ast.Match) for n in ast.walk(out)):
        out = _flatten_only(repo, ci, desugar_match(out), sf, **kw)
    out = desugar_walrus(out)
    try:
        out = expand_cached_locals(out)
        out = desugar_scan_loops(out)
        out = publish_fresh_locals(out)
    except Exception:
        pass
    if any(isinstance(n, ast.Call) and isinstance(n.func, ast.Name) for n in ast.walk(out)):
        try:
            out = fold_module_callables(repo, ci, sf or (ci.file if ci is not None else None), out)
        except Exception:
            pass
    out = desugar_idioms(out)
    out = desugar_takewhile(out)
    out = forward_unpacked_calls(out)
    if any(isinstance(n, ast.Call) and isinstance(n.func, ast.Call) and norm(n.func.func).split(".")[-1] in ("itemgetter", "attrgetter") for n in ast.walk(out)):
        out = desugar_getters(out)
    if any(isinstance(n, ast.Call) and norm(n.func).split(".")[-1] == "iter_unpack" for n in ast.walk(out)):
        out = desugar_iter_unpack(out)
    if any(isinstance(n, ast.For) and isinstance(n.iter, (ast.Name, ast.GeneratorExp, ast.ListComp)) for n in ast.walk(out)) and \
            any(isinstance(n, (ast.GeneratorExp, ast.ListComp)) for n in ast.walk(out)):
        try:
            out = desugar_genexp_loops(out)
        except Exception:
            pass
    if any(isinstance(n, ast.Attribute) and n.attr in ("pack", "unpack", "unpack_from") for n in ast.walk(out)) or \
            any(isinstance(n, ast.Call) and isinstance(n.func, ast.Name) and n.func.id == "unpack_from" for n in ast.walk(out)):
        try:
            out = desugar_structs(repo, ci, sf, out)         # before unrolling: zip(FIELDS, CODEC.unpack(data)) is then recognised
        except Exception:
            pass
    out = unroll(out, repo, ci, sf)
    if any(isinstance(n, ast.Attribute) and isinstance(n.value, ast.Call) for n in ast.walk(out)):
        try:
            out = fold_record_ctor_fields(repo, ci, sf, out)
            if any(isinstance(n, (ast.BoolOp, ast.UnaryOp)) for n in ast.walk(out)):
                out = simplify_constants(out)
        except Exception:
            pass
    if any(isinstance(n, ast.For) and isinstance(n.iter, ast.Name) for n in ast.walk(out)) and \
            any(isinstance(n, (ast.GeneratorExp, ast.ListComp)) for n in ast.walk(out)):
        try:
            out = desugar_genexp_loops(out)            # loops that unrolling wrote out may iterate a once-bound generator expression
        except Exception:
            pass
    # unrolling a table of (tag, encoder, attribute) rows reveals calls of private helpers: read those through as well
    if any(isinstance(n, ast.Assign) and isinstance(n.value, ast.IfExp) for n in ast.walk(out)):
        out = split_conditional_callee(out)
    again = _flatten_only(repo, ci, out, sf, **kw)
    if ast.dump(again) != ast.dump(out):
        again = desugar_walrus(again)
        try:
            again = expand_cached_locals(again)
        except Exception:
            pass
        out = unroll(again, repo, ci, sf)
    if aliases:
        changed = False
        for _ in range(3):          # project = self.object; modules = project.modules
            nxt = expand_aliases(out)
            if ast.dump(nxt) == ast.dump(out):
                break
            out = nxt
            changed = True
        if changed:
            out = _flatten_only(repo, ci, out, sf, **kw)      # `mod = self.module; yield from mod._x_chunks()` is now resolvable
            out = unroll(out, repo, ci, sf)      # `fields = self._FIELDS; for f in fields` now iterates the constant itself
    if any(isinstance(n, ast.Assign) and isinstance(n.value, ast.Constant) and isinstance(n.value.value, bool) for n in ast.walk(out)) \
            and any(isinstance(n, ast.For) for n in ast.walk(out)):
        out = fold_flag_loops(out)
    if any(isinstance(n, (ast.BoolOp, ast.If, ast.IfExp, ast.UnaryOp)) and any(isinstance(c, ast.Constant) and isinstance(c.value, bool)
                                                                              for c in ast.iter_child_nodes(n) if isinstance(c, ast.Constant))
           or (isinstance(n, ast.BoolOp) and any(isinstance(c, ast.Constant) for c in n.values))
           or (isinstance(n, ast.UnaryOp) and isinstance(n.op, ast.Not) and isinstance(n.operand, ast.Constant)) for n in ast.walk(out)):
        out = simplify_constants(out)
    if any(isinstance(n, ast.While) and isinstance(n.test, ast.Name) for n in ast.walk(out)):
        out = pop_loops_as_for(out)
    out = rename_sequential_defs(out)
    out = propagate_copies(out)
    if any(isinstance(n, ast.With) for n in ast.walk(out)) and any(isinstance(n, ast.Call) and norm(n.func).split(".")[-1] == "suppress" for n in ast.walk(out)):
        out = desugar_suppress(out)
    # named integer constants of the module (`_NOTE_SIZE = 8`, `CHUNK_HEADER_SIZE = 8`) read as their values
    the_sf = sf or (ci.file if ci is not None else None)
    if the_sf is not None and FOLD_NAMED_INTS:
        consts = _module_int_constants(repo, the_sf)
        if consts and any(isinstance(n, ast.Name) and n.id in consts for n in ast.walk(out)):
            bound = {a.arg for a in out.args.args + out.args.kwonlyargs} | \
                {n.id for n in ast.walk(out) if isinstance(n, ast.Name) and isinstance(n.ctx, (ast.Store, ast.Del))}
            env = {k: ast.Constant(value=v) for k, v in consts.items() if k not in bound}
            if env:
                out = _Rename(env).visit(out)
                ast.fix_missing_locations(out)
                number(out)
    if the_sf is not None and any(isinstance(n, ast.Compare) and isinstance(n.ops[0], (ast.In, ast.NotIn, ast.LtE)) and isinstance(n.comparators[0], (ast.Name, ast.Attribute))
                                  or (isinstance(n, ast.Call) and isinstance(n.func, ast.Attribute) and n.func.attr in ("issuperset", "issubset", "difference"))
                                  for n in ast.walk(out)):
        try:
            out = fold_const_collections(repo, ci, the_sf, out)
        except Exception:
            pass
    if the_sf is not None and FOLD_NAMED_INTS and any(isinstance(n, ast.Attribute) and isinstance(n.value, (ast.Name, ast.Attribute))
                                                      and norm(n.value).split(".")[-1][:1].isupper() for n in ast.walk(out)):
        try:
            out = fold_intenum_members(repo, ci, the_sf, out)
        except Exception:
            pass
    if ci is not None and FOLD_NAMED_INTS:
        cconsts = _class_int_constants(repo, ci)
        if cconsts and any(isinstance(n, ast.Attribute) and n.attr in cconsts for n in ast.walk(out)):
            first = out.args.args[0].arg if out.args.args else None
            rebound = {n.id for n in ast.walk(out) if isinstance(n, ast.Name) and isinstance(n.ctx, (ast.Store, ast.Del))}

            class _CC(ast.NodeTransformer):
                def visit_Attribute(self, node):
                    node = self.generic_visit(node)
                    if isinstance(node.ctx, ast.Load) and node.attr in cconsts and isinstance(node.value, ast.Name) and node.value.id not in rebound \
                            and (node.value.id in ("self", "cls") and node.value.id == first or node.value.id == ci.name):
                        return ast.copy_location(ast.Constant(value=cconsts[node.attr]), node)
                    return node
            out = _CC().visit(out)
            ast.fix_missing_locations(out)
            number(out)
    if any(isinstance(n, ast.Assign) and isinstance(n.value, ast.Call) and isinstance(n.value.func, (ast.Name, ast.Attribute))
           and norm(n.value.func).split(".")[-1][:1].isupper() or (isinstance(n, ast.Assign) and isinstance(n.value, ast.Call)
                                                                   and norm(n.value.func).split(".")[-1].startswith("_")) for n in ast.walk(out)):
        try:
            out = desugar_records(repo, ci, the_sf, out)
        except Exception:
            pass
    try:
        out = fold_record_constants(repo, ci, the_sf, copy.deepcopy(out))
    except Exception:
        pass
    const_rows_unpacked = resolve_const_rows(repo, ci, the_sf, out)
    if any(isinstance(n, ast.Assign) and len(n.targets) == 1 and (
            (isinstance(n.targets[0], (ast.Tuple, ast.List)) and (isinstance(n.value, (ast.Tuple, ast.List))
                                                                  or (isinstance(n.value, ast.Call) and norm(n.value.func) == "divmod")))
            or (isinstance(n.targets[0], (ast.Tuple, ast.List)) and isinstance(n.value, ast.Call) and isinstance(n.value.func, ast.Attribute)
                and n.value.func.attr in ("partition", "rpartition"))
            or (isinstance(n.targets[0], (ast.Tuple, ast.List)) and isinstance(n.value, ast.Name))
            or (isinstance(n.targets[0], ast.Name) and isinstance(n.value, ast.Tuple))) for n in ast.walk(out)):
        out = split_tuple_assigns(out)
    if any(isinstance(n, ast.Assign) and len(n.targets) == 1 and isinstance(n.targets[0], ast.Name) and (
            (isinstance(n.value, ast.Constant) and isinstance(n.value.value, int) and not isinstance(n.value.value, bool))
            or (isinstance(n.value, ast.BinOp) and all(isinstance(x, (ast.BinOp, ast.UnaryOp, ast.Constant, ast.operator, ast.unaryop)) for x in ast.walk(n.value))))
           for n in ast.walk(out)):
        # `first = 20; step = 4` (bound once, before any read): the literal is read at the uses
        try:
            out = propagate_int_constants(out)
        except Exception:
            pass
    if any(isinstance(n, ast.Attribute) and n.attr in ("pack", "unpack", "unpack_from", "size") for n in ast.walk(out)) or \
            any(isinstance(n, ast.Call) and isinstance(n.func, (ast.Name, ast.Subscript, ast.Call)) for n in ast.walk(out)):
        # (also the module-level unpack_from(F, data, off))
        try:
            out = desugar_structs(repo, ci, sf, out)
        except Exception:
            pass
    return out


def _splice_starred_displays(fn: ast.AST) -> ast.AST:
    """`(a, b, *(c, d))` is `(a, b, c, d)` (also in list displays and call arguments; loads only)."""
    class S(ast.NodeTransformer):
        def _splice(self, elts):
            out = []
            for e in elts:
                if isinstance(e, ast.Starred) and isinstance(e.value, (ast.Tuple, ast.List)) and not any(isinstance(x, ast.Starred) for x in e.value.elts):
                    out.extend(e.value.elts)
                else:
                    out.append(e)
            return out

        def visit_Tuple(self, node):
            node = self.generic_visit(node)
            if isinstance(node.ctx, ast.Load):
                node.elts = self._splice(node.elts)
            return node
        visit_List = visit_Tuple

        def visit_Call(self, node):
            node = self.generic_visit(node)
            node.args = self._splice(node.args)
            return node
    return S().visit(fn)


def desugar_genexp_loops(fn: ast.FunctionDef) -> ast.FunctionDef:
    """`for T in (E for T2 in ITER if C): BODY` reads as `for T2 in ITER: if C: T = E; BODY` — also when the generator expression
    (or list comprehension) is first bound to a local that is bound once and read only by that loop, directly before it.
    The loop body must not bind the comprehension's own variables differently (T2's names are new or equal to T's)."""
    stores: Dict[str, int] = {}
    loads: Dict[str, int] = {}
    for n in ast.walk(fn):
        if isinstance(n, ast.Name):
            d = stores if isinstance(n.ctx, (ast.Store, ast.Del)) else loads
            d[n.id] = d.get(n.id, 0) + 1

    def rewrite(lp: ast.For, comp) -> Optional[ast.For]:
        if len(comp.generators) != 1 or comp.generators[0].is_async or lp.orelse:
            return None
        g = comp.generators[0]
        t2 = {n.id for n in ast.walk(g.target) if isinstance(n, ast.Name)}
        t1 = {n.id for n in ast.walk(lp.target) if isinstance(n, ast.Name)}
        same = norm(g.target) == norm(lp.target) and norm(comp.elt) == norm(g.target)
        if not same:
            # the comprehension's variables become loop locals: they must not be names the function uses elsewhere
            body_names = {n.id for b in lp.body for n in ast.walk(b) if isinstance(n, ast.Name)}
            own_stores = {}
            for n in ast.walk(g.target):
                if isinstance(n, ast.Name):
                    own_stores[n.id] = own_stores.get(n.id, 0) + 1
            if (t2 - t1) & body_names or any(stores.get(x, 0) - own_stores.get(x, 0) > 0 for x in t2 - t1):
                return None
        body = list(lp.body)
        if not same:
            tgt = copy.deepcopy(lp.target)
            body = [ast.Assign(targets=[tgt], value=copy.deepcopy(comp.elt))] + body
        for c in reversed(g.ifs):
            body = [ast.If(test=copy.deepcopy(c), body=body, orelse=[])]
        t = copy.deepcopy(g.target)
        for n in ast.walk(t):
            if hasattr(n, "ctx"):
                n.ctx = ast.Store()
        new = ast.For(target=t, iter=copy.deepcopy(g.iter), body=body, orelse=[])
        return ast.copy_location(new, lp)

    def block(stmts: List[ast.stmt]) -> List[ast.stmt]:
        out: List[ast.stmt] = []
        i = 0
        while i < len(stmts):
            st = stmts[i]
            nxt = stmts[i + 1] if i + 1 < len(stmts) else None
            if isinstance(st, ast.Assign) and len(st.targets) == 1 and isinstance(st.targets[0], ast.Name) \
                    and isinstance(st.value, (ast.GeneratorExp, ast.ListComp)) and isinstance(nxt, ast.For) and isinstance(nxt.iter, ast.Name) \
                    and nxt.iter.id == st.targets[0].id and stores.get(nxt.iter.id) == 1 and loads.get(nxt.iter.id) == 1:
                new = rewrite(nxt, st.value)
                if new is not None:
                    out.extend(block([new]))
                    i += 2
                    continue
            if isinstance(st, ast.For) and isinstance(st.iter, (ast.GeneratorExp, ast.ListComp)):
                new = rewrite(st, st.iter)
                if new is not None:
                    st = new
            for fld in ("body", "orelse", "finalbody"):
                sub = getattr(st, fld, None)
                if isinstance(sub, list) and not isinstance(st, (ast.FunctionDef, ast.ClassDef)):
                    setattr(st, fld, block(sub))
            if isinstance(st, ast.Try):
                for h in st.handlers:
                    h.body = block(h.body)
            out.append(st)
            i += 1
        return out
    new_fn = copy.deepcopy(fn)
    new_fn.body = block(new_fn.body)
    ast.fix_missing_locations(new_fn)
    number(new_fn)
    return new_fn


def desugar_iter_unpack(fn: ast.FunctionDef) -> ast.FunctionDef:
    """`(v for (v,) in iter_unpack("<i", D))` (also as a list comprehension) is the tuple `unpack("<" + "i" * (len(D) // 4), D)`:
    one single-field record per element, in order.  (For data whose length is not a multiple of the record size both raise
    struct.error.)"""
    import struct as _struct

    class U(ast.NodeTransformer):
        def _try(self, node):
            if len(node.generators) != 1 or node.generators[0].ifs:
                return None
            g = node.generators[0]
            it = g.iter
            if not (isinstance(it, ast.Call) and norm(it.func).split(".")[-1] == "iter_unpack" and len(it.args) == 2 and isinstance(it.args[0], ast.Constant)
                    and isinstance(it.args[0].value, str)):
                return None
            fmt = it.args[0].value
            order, code = (fmt[0], fmt[1:]) if fmt[:1] in "<>=!@" else ("", fmt)
            if len(code) != 1 or code in "xsp":
                return None
            if not (isinstance(g.target, (ast.Tuple, ast.List)) and len(g.target.elts) == 1 and isinstance(g.target.elts[0], ast.Name)
                    and isinstance(node.elt, ast.Name) and node.elt.id == g.target.elts[0].id):
                return None
            try:
                size = _struct.calcsize((order or "=") + code)
            except _struct.error:
                return None
            d = it.args[1]
            count = ast.BinOp(left=ast.Call(func=ast.Name(id="len", ctx=ast.Load()), args=[copy.deepcopy(d)], keywords=[]), op=ast.FloorDiv(), right=ast.Constant(value=size))
            f_expr = ast.BinOp(left=ast.Constant(value=order), op=ast.Add(), right=ast.BinOp(left=ast.Constant(value=code), op=ast.Mult(), right=count)) if order \
                else ast.BinOp(left=ast.Constant(value=code), op=ast.Mult(), right=count)
            return ast.copy_location(ast.Call(func=ast.Name(id="unpack", ctx=ast.Load()), args=[f_expr, copy.deepcopy(d)], keywords=[]), node)

        def visit_GeneratorExp(self, node):
            node = self.generic_visit(node)
            return self._try(node) or node

        def visit_ListComp(self, node):
            node = self.generic_visit(node)
            r = self._try(node)
            return ast.copy_location(ast.Call(func=ast.Name(id="list", ctx=ast.Load()), args=[r], keywords=[]), node) if r is not None else node
    new = U().visit(copy.deepcopy(fn))
    ast.fix_missing_locations(new)
    number(new)
    return new


def desugar_getters(fn: ast.FunctionDef) -> ast.FunctionDef:
    """`itemgetter(0, 1, 2)(X)` reads as `(X[0], X[1], X[2])`, `itemgetter(k)(X)` as `X[k]`; `attrgetter("a", "b")(X)` as `(X.a, X.b)`
    (plain names only).  X must be a name or attribute chain (it is written several times)."""
    class G(ast.NodeTransformer):
        def visit_Call(self, node):
            node = self.generic_visit(node)
            if isinstance(node.func, ast.Call) and len(node.args) == 1 and not node.keywords and not node.func.keywords and node.func.args \
                    and isinstance(node.args[0], (ast.Name, ast.Attribute)) and norm(node.args[0]).count("(") == 0:
                kind = norm(node.func.func).split(".")[-1]
                x = node.args[0]
                if kind == "itemgetter" and all(isinstance(a, ast.Constant) for a in node.func.args):
                    parts = [ast.Subscript(value=copy.deepcopy(x), slice=a, ctx=ast.Load()) for a in node.func.args]
                elif kind == "attrgetter" and all(isinstance(a, ast.Constant) and isinstance(a.value, str) and a.value.isidentifier() for a in node.func.args):
                    parts = [ast.Attribute(value=copy.deepcopy(x), attr=a.value, ctx=ast.Load()) for a in node.func.args]
                else:
                    return node
                new = parts[0] if len(parts) == 1 else ast.Tuple(elts=parts, ctx=ast.Load())
                return ast.copy_location(new, node)
            return node
    new = G().visit(copy.deepcopy(fn))
    ast.fix_missing_locations(new)
    number(new)
    return new


def fold_module_callables(repo: Repo, ci: Optional[ClassInfo], sf: Optional[SourceFile], fn: ast.FunctionDef) -> ast.FunctionDef:
    """A module-level name bound to a getter or a flattening function (`_raw = attrgetter("raw_data")`, `_flatten = chain.from_iterable`)
    reads as that expression where it is called or handed to map(); then `map(attrgetter("a"), X)` reads as `(v.a for v in X)`."""
    bound = {a.arg for a in fn.args.args + fn.args.kwonlyargs} | {n.id for n in ast.walk(fn) if isinstance(n, ast.Name) and isinstance(n.ctx, (ast.Store, ast.Del))}

    def callable_def(e):
        if not isinstance(e, ast.Name) or e.id in bound:
            return None
        try:
            d = definition_of(repo, ci, sf, e)
        except Exception:
            return None
        if isinstance(d, ast.Call) and norm(d.func).split(".")[-1] in ("attrgetter", "itemgetter") and not d.keywords \
                and all(isinstance(a, ast.Constant) for a in d.args):
            return copy.deepcopy(d)
        if isinstance(d, ast.Attribute) and norm(d) in ("chain.from_iterable", "itertools.chain.from_iterable"):
            return copy.deepcopy(d)
        return None
    changed = False
    counter = [0]

    class T(ast.NodeTransformer):
        def visit_Call(self, node):
            nonlocal changed
            node = self.generic_visit(node)
            d = callable_def(node.func)
            if d is not None:
                node.func = d
                changed = True
            if isinstance(node.func, ast.Name) and node.func.id == "map" and len(node.args) == 2 and not node.keywords:
                d = callable_def(node.args[0]) or node.args[0]
                if isinstance(d, ast.Call) and norm(d.func).split(".")[-1] == "attrgetter" and len(d.args) == 1 and isinstance(d.args[0], ast.Constant) \
                        and isinstance(d.args[0].value, str) and d.args[0].value.isidentifier():
                    counter[0] += 1
                    v = f"_m{counter[0]}"
                    changed = True
                    return ast.copy_location(ast.GeneratorExp(
                        elt=ast.Attribute(value=ast.Name(id=v, ctx=ast.Load()), attr=d.args[0].value, ctx=ast.Load()),
                        generators=[ast.comprehension(target=ast.Name(id=v, ctx=ast.Store()), iter=node.args[1], ifs=[], is_async=0)]), node)
            return node
    new = T().visit(copy.deepcopy(fn))
    if not changed:
        return fn
    ast.fix_missing_locations(new)
    number(new)
    return new


def resolve_flags(fn: ast.FunctionDef) -> ast.FunctionDef:
    """Substitute boolean flag locals into the tests that read them:  `reuse = not loading; if reuse and ...` reads as
    `if not loading and ...`.  Only locals bound once, whose defining expression is built from never-rebound names, constants,
    `not`/and/or, identity tests against None and `bool(<name>)` are substituted, so moving the expression is meaning-preserving."""
    from .packed import single_defs
    stores: Dict[str, int] = {}
    for n in ast.walk(fn):
        if isinstance(n, ast.Name) and isinstance(n.ctx, (ast.Store, ast.Del)):
            stores[n.id] = stores.get(n.id, 0) + 1
    params = {a.arg for a in fn.args.args + fn.args.kwonlyargs}
    stable = {p for p in params if stores.get(p, 0) == 0}
    defs = single_defs(fn)

    def movable(e: ast.expr, depth: int = 4) -> bool:
        if isinstance(e, ast.Constant):
            return True
        if isinstance(e, ast.Name):
            return e.id in stable or (depth > 0 and e.id in defs and movable(defs[e.id], depth - 1))
        # pure type tests over names that keep their value (parameters, once-bound locals, globals such as class names)
        if isinstance(e, ast.Call) and isinstance(e.func, ast.Name) and e.func.id in ("isinstance", "issubclass", "callable") and not e.keywords \
                and stores.get(e.func.id, 0) == 0:
            def fixed(x):
                if isinstance(x, ast.Name):
                    return x.id in stable or x.id in defs or stores.get(x.id, 0) == 0
                if isinstance(x, ast.Tuple):
                    return all(fixed(y) for y in x.elts)
                return isinstance(x, ast.Constant)
            return all(fixed(a) for a in e.args)
        if isinstance(e, ast.UnaryOp) and isinstance(e.op, ast.Not):
            return movable(e.operand, depth)
        if isinstance(e, ast.BoolOp):
            return all(movable(v, depth) for v in e.values)
        if isinstance(e, ast.Compare) and len(e.ops) == 1 and isinstance(e.ops[0], (ast.Is, ast.IsNot)):
            return movable(e.left, depth) and movable(e.comparators[0], depth)
        if isinstance(e, ast.Call) and isinstance(e.func, ast.Name) and e.func.id == "bool" and len(e.args) == 1 and not e.keywords:
            return movable(e.args[0], depth)
        return False
    flags = {k: v for k, v in defs.items() if not isinstance(v, (ast.Name, ast.Constant)) and movable(v)}
    # comparisons that read attributes of never-rebound names (`too_low = value < self.min`) may move only across statements that
    # neither call anything nor store to an attribute: nothing can change the attribute in between
    number(fn)
    stmts_all = [n for n in ast.walk(fn) if isinstance(n, ast.stmt) and n is not fn]

    def attr_movable(e: ast.expr) -> bool:
        if isinstance(e, ast.Compare):
            return all(attr_movable(x) for x in [e.left] + list(e.comparators))
        if isinstance(e, (ast.UnaryOp,)) and isinstance(e.op, ast.Not):
            return attr_movable(e.operand)
        if isinstance(e, ast.BoolOp):
            return all(attr_movable(v) for v in e.values)
        if isinstance(e, ast.Attribute):
            ch = e
            while isinstance(ch, ast.Attribute):
                ch = ch.value
            return isinstance(ch, ast.Name) and (ch.id in stable or ch.id == "self")
        return movable(e)

    def quiet_between(a: int, b: int) -> bool:
        for st in stmts_all:
            if a < pos(st) < b and not isinstance(st, (ast.If, ast.While, ast.For, ast.Try, ast.With)):
                for n in ast.walk(st):
                    if isinstance(n, (ast.Call, ast.Await, ast.Yield, ast.YieldFrom)) or \
                            (isinstance(n, (ast.Attribute, ast.Subscript)) and isinstance(n.ctx, (ast.Store, ast.Del))):
                        return False
        return True
    for st in stmts_all:
        if isinstance(st, ast.Assign) and len(st.targets) == 1 and isinstance(st.targets[0], ast.Name):
            k = st.targets[0].id
            if k in defs and k not in flags and defs[k] is st.value and not isinstance(st.value, (ast.Name, ast.Constant, ast.Attribute)) \
                    and attr_movable(st.value):
                uses = [n for n in ast.walk(fn) if isinstance(n, ast.Name) and n.id == k and isinstance(n.ctx, ast.Load)]
                tests = [t for t in ast.walk(fn) if isinstance(t, (ast.If, ast.While, ast.IfExp))]
                ok = True
                for u in uses:
                    host = [t for t in tests if any(x is u for x in ast.walk(t.test))]
                    if not host or not all(pos(h) > pos(st) and quiet_between(pos(st), pos(h)) for h in host):
                        ok = False
                if ok and uses:
                    flags[k] = st.value
    if not flags:
        return fn

    class Sub(ast.NodeTransformer):
        def visit_Name(self, node):
            if isinstance(node.ctx, ast.Load) and node.id in flags:
                v = self.visit(copy.deepcopy(flags[node.id]))
                if isinstance(v, ast.Call):         # bool(x) in a test is x
                    v = v.args[0]
                return v
            return node

    class Tests(ast.NodeTransformer):
        def _t(self, node):
            self.generic_visit(node)
            node.test = Sub().visit(node.test)
            return node
        visit_If = visit_While = visit_IfExp = _t
    out = copy.deepcopy(fn)
    Tests().visit(out)
    # a flag that is no longer read anywhere is dropped with its (pure) definition
    still = {n.id for n in ast.walk(out) if isinstance(n, ast.Name) and isinstance(n.ctx, ast.Load)}
    dead = {k for k in flags if k not in still}

    class Drop(ast.NodeTransformer):
        def visit_Assign(self, node):
            if len(node.targets) == 1 and isinstance(node.targets[0], ast.Name) and node.targets[0].id in dead:
                return None
            return node
    if dead:
        Drop().visit(out)
        for n in ast.walk(out):
            for fld in ("body", "orelse", "finalbody"):
                if isinstance(getattr(n, fld, None), list) and not getattr(n, fld) and fld == "body":
                    n.body = [ast.Pass()]
    ast.fix_missing_locations(out)
    number(out)
    return out


def _negate(e: ast.expr) -> ast.expr:
    if isinstance(e, ast.UnaryOp) and isinstance(e.op, ast.Not):
        return e.operand
    return ast.UnaryOp(op=ast.Not(), operand=e)


def nest_guard_clauses(fn: ast.FunctionDef) -> ast.FunctionDef:
    """A procedure (no return carries a value) with guard clauses `if C: return` followed by REST reads as `if not C: REST`."""
    if any(isinstance(n, ast.Return) and n.value is not None and not (isinstance(n.value, ast.Constant) and n.value.value is None)
           for n in ast.walk(fn)):
        return fn

    def block(stmts: List[ast.stmt]) -> List[ast.stmt]:
        out: List[ast.stmt] = []
        for i, st in enumerate(stmts):
            if isinstance(st, ast.If) and not st.orelse and len(st.body) == 1 and isinstance(st.body[0], ast.Return) and stmts[i + 1:]:
                rest = block(stmts[i + 1:])
                new = ast.If(test=_negate(copy.deepcopy(st.test)), body=rest, orelse=[])
                out.append(ast.copy_location(new, st))
                return out
            out.append(st)
        return out
    new = copy.deepcopy(fn)
    new.body = block(new.body)
    ast.fix_missing_locations(new)
    number(new)
    return new


def split_ifexp_returns(fn: ast.FunctionDef) -> ast.FunctionDef:
    """`return A if C else B`  reads as  `if C: return A` / `else: return B`  (so that path rules see the condition)."""
    class X(ast.NodeTransformer):
        def visit_Return(self, node):
            if isinstance(node.value, ast.IfExp):
                a = self.visit(ast.copy_location(ast.Return(value=node.value.body), node))
                b = self.visit(ast.copy_location(ast.Return(value=node.value.orelse), node))
                new = ast.If(test=node.value.test, body=[a] if not isinstance(a, list) else a, orelse=[b] if not isinstance(b, list) else b)
                return ast.copy_location(new, node)
            return node

        def visit_FunctionDef(self, node):
            if node is not new_fn:
                return node
            return self.generic_visit(node)
        visit_Lambda = lambda self, node: node
    new_fn = copy.deepcopy(fn)
    X().visit(new_fn)
    ast.fix_missing_locations(new_fn)
    number(new_fn)
    return new_fn


def split_rebinds(fn: ast.FunctionDef) -> ast.FunctionDef:
    """A local that is re-bound in the middle of a statement list (`offset *= size`, `x = x + 1`) gets a fresh name from that
    point on, so that every name has one meaning:  `for i, n in ...: i *= 8; use(i)`  reads  `i__r1 = i * 8; use(i__r1)`.
    Done only when the re-binding statement stands directly in the list, nothing later in the list binds the name again inside a
    nested statement, and the name is not read outside the list."""
    new = copy.deepcopy(fn)
    counter = [0]
    all_loads: Dict[str, int] = {}
    for n in ast.walk(new):
        if isinstance(n, ast.Name) and isinstance(n.ctx, ast.Load):
            all_loads[n.id] = all_loads.get(n.id, 0) + 1

    def loads_in(nodes, name) -> int:
        return sum(1 for st in nodes for n in ast.walk(st) if isinstance(n, ast.Name) and n.id == name and isinstance(n.ctx, ast.Load))

    def binds_nested(st: ast.stmt, name: str) -> bool:
        for n in ast.walk(st):
            if n is st:
                continue
            if isinstance(n, ast.Name) and n.id == name and isinstance(n.ctx, (ast.Store, ast.Del)):
                return True
        return False

    def block(stmts: List[ast.stmt], bound: Set[str]) -> List[ast.stmt]:
        bound = set(bound)
        i = 0
        while i < len(stmts):
            st = stmts[i]
            name = None
            if isinstance(st, ast.AugAssign) and isinstance(st.target, ast.Name):
                name = st.target.id
            elif isinstance(st, ast.Assign) and len(st.targets) == 1 and isinstance(st.targets[0], ast.Name) \
                    and any(isinstance(n, ast.Name) and n.id == st.targets[0].id for n in ast.walk(st.value)):
                name = st.targets[0].id
            if name is not None and name in bound:
                later = stmts[i + 1:]
                inside = loads_in(stmts, name)
                ok = inside == all_loads.get(name, 0) and not any(
                    binds_nested(x, name) if isinstance(x, (ast.If, ast.For, ast.While, ast.With, ast.Try)) else False for x in later)
                if ok:
                    counter[0] += 1
                    fresh = f"{name}__r{counter[0]}"
                    if isinstance(st, ast.AugAssign):
                        val = ast.BinOp(left=ast.Name(id=name, ctx=ast.Load()), op=st.op, right=st.value)
                    else:
                        val = st.value
                    repl = ast.copy_location(ast.Assign(targets=[ast.Name(id=fresh, ctx=ast.Store())], value=val), st)
                    for k, v in getattr(st, "__dict__", {}).items():
                        if k.startswith("_s"):
                            setattr(repl, k, v)
                    ren = _Rename({name: ast.Name(id=fresh, ctx=ast.Load())})
                    # stop renaming at the next direct re-binding of `name` in this list (it is handled in turn)
                    new_later = []
                    active = True
                    for x in later:
                        if active and ((isinstance(x, ast.AugAssign) and isinstance(x.target, ast.Name) and x.target.id == name) or
                                       (isinstance(x, ast.Assign) and any(isinstance(t, ast.Name) and t.id == name for t in x.targets))):
                            # the right-hand side still reads the fresh name
                            if isinstance(x, ast.AugAssign):
                                x = ast.copy_location(ast.Assign(targets=[ast.Name(id=name, ctx=ast.Store())],
                                                                 value=ast.BinOp(left=ast.Name(id=fresh, ctx=ast.Load()), op=x.op, right=ren.visit(x.value))), x)
                            else:
                                x.value = ren.visit(x.value)
                            active = False
                            new_later.append(x)
                            continue
                        new_later.append(ren.visit(x) if active else x)
                    stmts = stmts[:i] + [repl] + new_later
                    all_loads[fresh] = loads_in(stmts, fresh)
                    bound.add(fresh)
                    i += 1
                    continue
            for n in ast.walk(st):
                if isinstance(n, ast.Name) and isinstance(n.ctx, ast.Store):
                    bound.add(n.id)
            for fld in ("body", "orelse", "finalbody"):
                sub = getattr(st, fld, None)
                if isinstance(sub, list) and sub and isinstance(sub[0], ast.stmt) and not isinstance(st, (ast.FunctionDef, ast.ClassDef)):
                    extra = set()
                    if isinstance(st, (ast.For, ast.AsyncFor)):
                        extra = {n.id for n in ast.walk(st.target) if isinstance(n, ast.Name)}
                    setattr(st, fld, block(sub, bound | extra))
            if isinstance(st, ast.Try):
                for h in st.handlers:
                    h.body = block(h.body, bound)
            i += 1
        return stmts
    params = {a.arg for a in new.args.args + new.args.kwonlyargs}
    new.body = block(new.body, params)
    ast.fix_missing_locations(new)
    number(new)
    return new


def split_ifexp_assigns(fn: ast.FunctionDef) -> ast.FunctionDef:
    """`x = A if C else B` (also with tuple targets) reads as `if C: x = A` / `else: x = B`, so that path rules see the condition."""
    class X(ast.NodeTransformer):
        def visit_Assign(self, node):
            if isinstance(node.value, ast.IfExp):
                a = ast.copy_location(ast.Assign(targets=copy.deepcopy(node.targets), value=node.value.body), node)
                b = ast.copy_location(ast.Assign(targets=copy.deepcopy(node.targets), value=node.value.orelse), node)
                ra, rb = self.visit_Assign(a), self.visit_Assign(b)
                new = ast.If(test=node.value.test, body=ra if isinstance(ra, list) else [ra], orelse=rb if isinstance(rb, list) else [rb])
                return ast.copy_location(new, node)
            return node

        def visit_Lambda(self, node):
            return node
    new_fn = copy.deepcopy(fn)
    X().visit(new_fn)
    ast.fix_missing_locations(new_fn)
    number(new_fn)
    return new_fn


def definition_of(repo: Repo, ci: Optional[ClassInfo], sf: Optional[SourceFile], e: ast.expr, depth: int = 0) -> Optional[ast.expr]:
    """The expression a module-level / class-level name is bound to (`_UINT32`, `self._HEADER`, `Sampler.CODEC`), following
    `from x import name`; None for anything else."""
    if depth > 4:
        return None
    if isinstance(e, ast.Name) and sf is not None:
        try:
            return repo.module_assign(sf.modname, e.id)
        except AnchorMissing:
            imp = sf.imports.get(e.id)
            if imp and imp[1] and imp[0] in repo.by_mod:
                return definition_of(repo, None, repo.by_mod[imp[0]], ast.Name(id=imp[1], ctx=ast.Load()), depth + 1)
            return None
    if isinstance(e, ast.Attribute) and isinstance(e.value, ast.Name):
        owner = None
        if e.value.id in ("self", "cls") and ci is not None:
            owner = ci
        else:
            owner = repo.class_of_expr(e.value, ci, sf)
        if owner is not None:
            r = repo.lookup(owner, e.attr)
            if r is not None and r[1] == "assign":
                return r[2]
    return None


def fold_intenum_members(repo: Repo, ci: Optional[ClassInfo], sf: Optional[SourceFile], fn: ast.FunctionDef) -> ast.FunctionDef:
    """`ChunkNumber.first_label` with `class ChunkNumber(IntEnum): first_label = 8` reads as 8 (an IntEnum / IntFlag member is an int in
    arithmetic, comparisons, struct.pack and as an enumerate start; its identity and repr are not what the rules look at).  Also
    `int(ChunkNumber.x)` and `ChunkNumber.x.value`."""
    bound = {n.id for n in ast.walk(fn) if isinstance(n, ast.Name) and isinstance(n.ctx, (ast.Store, ast.Del))} | {a.arg for a in fn.args.args}
    cache: Dict[str, Optional[Dict[str, int]]] = {}

    def members(e: ast.expr) -> Optional[Dict[str, int]]:
        key = norm(e)
        if key in cache:
            return cache[key]
        out = None
        if isinstance(e, ast.Name) and e.id in bound:
            cache[key] = None
            return None
        try:
            k = repo.class_of_expr(e, ci, sf)
        except Exception:
            k = None
        if k is not None and any(norm(b).split(".")[-1] in ("IntEnum", "IntFlag") for b in k.node.bases):
            out = {}
            for st in k.node.body:
                if isinstance(st, ast.Assign) and len(st.targets) == 1 and isinstance(st.targets[0], ast.Name):
                    try:
                        v = repo.fold(st.value, ci=k, sf=k.file)
                    except Exception:
                        continue
                    if isinstance(v, int) and not isinstance(v, bool):
                        out[st.targets[0].id] = v
        cache[key] = out
        return out
    changed = False

    def member_value(e):
        if isinstance(e, ast.Attribute) and e.attr == "value":
            e = e.value                     # Member.value
        if isinstance(e, ast.Call) and isinstance(e.func, ast.Name) and e.func.id == "int" and len(e.args) == 1 and not e.keywords:
            e = e.args[0]                   # int(Member)
        if isinstance(e, ast.Attribute) and isinstance(e.ctx, ast.Load) and isinstance(e.value, (ast.Name, ast.Attribute)) \
                and norm(e.value).split(".")[-1][:1].isupper():
            m = members(e.value)
            if m and e.attr in m:
                return ast.Constant(value=m[e.attr])
        return None

    def fold_here(e):
        nonlocal changed
        v = member_value(e)
        if v is not None:
            changed = True
            return ast.copy_location(v, e)
        return e

    class T(ast.NodeTransformer):
        # only where an integer is what is meant: operands of comparisons and arithmetic, struct.pack arguments, enumerate / range
        # arguments, subscripts.  A member stored, returned or passed on stays the member (rules about enumerated values read it).
        def visit_Compare(self, node):
            node = self.generic_visit(node)
            node.left = fold_here(node.left)
            node.comparators = [fold_here(c) for c in node.comparators]
            return node

        def visit_BinOp(self, node):
            node = self.generic_visit(node)
            node.left, node.right = fold_here(node.left), fold_here(node.right)
            return node

        def visit_Subscript(self, node):
            node = self.generic_visit(node)
            if not isinstance(node.slice, ast.Slice):
                node.slice = fold_here(node.slice)
            return node

        def visit_Call(self, node):
            node = self.generic_visit(node)
            f = norm(node.func).split(".")[-1]
            if f in ("pack", "pack_into", "enumerate", "range", "to_bytes"):
                node.args = [fold_here(a) for a in node.args]
            if isinstance(node.func, ast.Name) and node.func.id == "int" and len(node.args) == 1 and not node.keywords:
                return fold_here(node)          # int(Member) is the integer wherever it stands
            return node

        def visit_Attribute(self, node):
            node = self.generic_visit(node)
            if node.attr == "value" and isinstance(node.ctx, ast.Load):
                return fold_here(node)          # Member.value likewise
            return node
    new = T().visit(copy.deepcopy(fn))
    if not changed:
        return fn
    ast.fix_missing_locations(new)
    number(new)
    return new


def fold_const_collections(repo: Repo, ci: Optional[ClassInfo], sf: Optional[SourceFile], fn: ast.FunctionDef) -> ast.FunctionDef:
    """A module- or class-level name bound to a display of constants (`_IMPLIED = (-1, 0)`, `_FREE = frozenset({-1, 0})`) reads as
    that display where it is the right-hand side of `in` / `not in` or the set of an `issuperset` / `issubset` / `<=` test."""
    bound = {a.arg for a in fn.args.args + fn.args.kwonlyargs} | {n.id for n in ast.walk(fn) if isinstance(n, ast.Name) and isinstance(n.ctx, (ast.Store, ast.Del))}

    def lit(e):
        if isinstance(e, ast.Name) and e.id in bound:
            return None
        if not isinstance(e, (ast.Name, ast.Attribute)):
            return None
        if isinstance(e, ast.Attribute) and not (isinstance(e.value, ast.Name) and e.value.id not in bound - {"self", "cls"}):
            return None
        try:
            d = definition_of(repo, ci, sf, e)
        except Exception:
            return None
        while isinstance(d, ast.Call) and isinstance(d.func, ast.Name) and d.func.id in ("frozenset", "set", "tuple", "list") and len(d.args) == 1 and not d.keywords:
            d = d.args[0]
        if isinstance(d, (ast.Tuple, ast.List, ast.Set)) and d.elts and all(
                isinstance(x, ast.Constant) or (isinstance(x, ast.UnaryOp) and isinstance(x.op, ast.USub) and isinstance(x.operand, ast.Constant)) for x in d.elts):
            return ast.Tuple(elts=[copy.deepcopy(x) for x in d.elts], ctx=ast.Load())
        return None
    changed = False

    class T(ast.NodeTransformer):
        def visit_Compare(self, node):
            nonlocal changed
            node = self.generic_visit(node)
            if len(node.ops) == 1 and isinstance(node.ops[0], (ast.In, ast.NotIn, ast.LtE)):
                if isinstance(node.ops[0], ast.LtE) and not (isinstance(node.left, ast.Call) and norm(node.left.func) in ("set", "frozenset")):
                    return node
                l = lit(node.comparators[0])
                if l is not None:
                    node.comparators = [l]
                    changed = True
            return node

        def visit_Call(self, node):
            nonlocal changed
            node = self.generic_visit(node)
            if isinstance(node.func, ast.Attribute) and len(node.args) == 1 and not node.keywords:
                if node.func.attr == "issuperset":
                    l = lit(node.func.value)
                    if l is not None:
                        node.func.value = ast.Set(elts=l.elts)
                        changed = True
                elif node.func.attr in ("issubset", "difference"):
                    l = lit(node.args[0])
                    if l is not None:
                        node.args = [ast.Set(elts=l.elts)]
                        changed = True
            return node
    new = T().visit(copy.deepcopy(fn))
    if not changed:
        return fn
    ast.fix_missing_locations(new)
    number(new)
    return new


def record_fields(repo: Repo, ci: Optional[ClassInfo], sf: Optional[SourceFile], ctor: ast.expr) -> Optional[List[str]]:
    """Field names, in positional order, of the record type `ctor` names: `X = namedtuple("X", "a b" | ["a", "b"])` at module level,
    or `class X(NamedTuple)` / `@dataclass class X` with annotated fields and no `__init__` / `__new__` of its own."""
    if not isinstance(ctor, (ast.Name, ast.Attribute)):
        return None
    d = definition_of(repo, ci, sf, ctor)
    if isinstance(d, ast.Call) and norm(d.func).split(".")[-1] == "namedtuple" and len(d.args) >= 2 and not any(k.arg in ("rename", "defaults") for k in d.keywords):
        f = d.args[1]
        if isinstance(f, ast.Constant) and isinstance(f.value, str):
            return f.value.replace(",", " ").split()
        if isinstance(f, (ast.List, ast.Tuple)) and all(isinstance(x, ast.Constant) and isinstance(x.value, str) for x in f.elts):
            return [x.value for x in f.elts]
        return None
    k = repo.class_of_expr(ctor, ci, sf) if sf is not None or ci is not None else None
    if k is not None and not ({"__init__", "__new__", "__post_init__"} & set(k.methods)):
        bases = [norm(b).split(".")[-1] for b in k.node.bases]
        decos = [norm(x.func if isinstance(x, ast.Call) else x).split(".")[-1] for x in k.node.decorator_list]
        if bases == ["NamedTuple"] or (decos == ["dataclass"] and not bases):
            fields = [st.target.id for st in k.node.body if isinstance(st, ast.AnnAssign) and isinstance(st.target, ast.Name)
                      and "ClassVar" not in norm(st.annotation)]
            return fields or None
    return None


def record_defaults(repo: Repo, ci: Optional[ClassInfo], sf: Optional[SourceFile], ctor: ast.expr) -> Dict[str, ast.expr]:
    """Defaults of the fields of a NamedTuple / dataclass record type written as a class (`omit_if_zero: bool = False`)."""
    k = repo.class_of_expr(ctor, ci, sf) if (sf is not None or ci is not None) and isinstance(ctor, (ast.Name, ast.Attribute)) else None
    if k is None:
        return {}
    return {st.target.id: st.value for st in k.node.body if isinstance(st, ast.AnnAssign) and isinstance(st.target, ast.Name) and st.value is not None
            and isinstance(st.value, ast.Constant)}


def fold_record_ctor_fields(repo: Repo, ci: Optional[ClassInfo], sf: Optional[SourceFile], fn: ast.FunctionDef) -> ast.FunctionDef:
    """`_Field(b"BPM ", "<I", "initial_bpm").attribute` (a field read off a record built in place, as left by unrolling a loop over
    a table of records) reads as the argument — or the constant default — that the field receives."""
    sf = sf or (ci.file if ci is not None else None)
    changed = False

    class T(ast.NodeTransformer):
        def visit_Attribute(self, node):
            nonlocal changed
            node = self.generic_visit(node)
            c = node.value
            if isinstance(node.ctx, ast.Load) and isinstance(c, ast.Call) and isinstance(c.func, (ast.Name, ast.Attribute)) \
                    and not any(isinstance(a, ast.Starred) for a in c.args) and not any(k.arg is None for k in c.keywords):
                try:
                    fields = record_fields(repo, ci, sf, c.func)
                except Exception:
                    fields = None
                if fields and node.attr in fields and len(c.args) <= len(fields):
                    m = dict(zip(fields, c.args))
                    for k in c.keywords:
                        if k.arg in m or k.arg not in fields:
                            return node
                        m[k.arg] = k.value
                    if node.attr not in m:
                        d = record_defaults(repo, ci, sf, c.func)
                        if node.attr not in d:
                            return node
                        m[node.attr] = d[node.attr]
                    changed = True
                    return ast.copy_location(copy.deepcopy(m[node.attr]), node)
            return node
    new = T().visit(copy.deepcopy(fn))
    if not changed:
        return fn
    ast.fix_missing_locations(new)
    number(new)
    return new


def record_constant(repo: Repo, ci: Optional[ClassInfo], sf: Optional[SourceFile], e: ast.expr, root: Optional[ast.AST] = None) -> Optional[ast.Call]:
    """The constructor call `R(a, b=…)` with constant arguments that the class-level / module-level name `e` (or a local of `root`
    bound once to such a name) is bound to, R a record type (see record_fields); None otherwise."""
    sf = sf or (ci.file if ci is not None else None)
    if isinstance(e, ast.Name) and root is not None:
        from .packed import single_defs
        try:
            d0 = single_defs(root).get(e.id)
        except Exception:
            d0 = None
        if isinstance(d0, (ast.Name, ast.Attribute)) and norm(d0) != norm(e):
            return record_constant(repo, ci, sf, d0, None)
    if not isinstance(e, (ast.Name, ast.Attribute)):
        return None
    try:
        d = definition_of(repo, ci, sf, e)
    except Exception:
        d = None
    if not (isinstance(d, ast.Call) and isinstance(d.func, (ast.Name, ast.Attribute)) and not any(isinstance(a, ast.Starred) for a in d.args)
            and not any(k.arg is None for k in d.keywords)):
        return None
    owner_ci = ci
    fields = record_fields(repo, owner_ci, sf, d.func)
    if not fields or len(d.args) + len(d.keywords) > len(fields):
        return None
    try:
        for a in list(d.args) + [k.value for k in d.keywords]:
            v = repo.fold(a, ci=ci, sf=sf)
            if not (v is None or isinstance(v, (int, str, bytes, bool, float))):
                return None
    except Exception:
        return None
    return d


def fold_record_constants(repo: Repo, ci: Optional[ClassInfo], sf: Optional[SourceFile], fn: ast.FunctionDef) -> ast.FunctionDef:
    """`self._LEVEL.mask` with `_LEVEL = _BitField(shift=0, mask=31)` a record constant reads as 31 (also through a local bound once
    to the constant)."""
    sf = sf or (ci.file if ci is not None else None)
    hits = []
    for n in ast.walk(fn):
        if isinstance(n, ast.Attribute) and isinstance(n.ctx, ast.Load) and isinstance(n.value, (ast.Name, ast.Attribute)) and not n.attr.startswith("__"):
            if isinstance(n.value, ast.Name) and n.value.id in ("self", "cls"):
                continue
            c = record_constant(repo, ci, sf, n.value, fn)
            if c is None:
                continue
            fields = record_fields(repo, ci, sf, c.func) or []
            m = dict(zip(fields, c.args))
            m.update({k.arg: k.value for k in c.keywords})
            if n.attr in m:
                try:
                    hits.append((n, repo.fold(m[n.attr], ci=ci, sf=sf)))
                except Exception:
                    pass
    if not hits:
        return fn
    by_pos = {(h[0].lineno, h[0].col_offset, norm(h[0])): h[1] for h in hits if hasattr(h[0], "lineno")}
    ids = {id(h[0]): h[1] for h in hits}

    class F(ast.NodeTransformer):
        def visit_Attribute(self, node):
            if id(node) in ids:
                return ast.copy_location(ast.Constant(value=ids[id(node)]), node)
            return self.generic_visit(node)
    new = F().visit(fn)          # in place: the nodes were identified by identity
    ast.fix_missing_locations(new)
    number(new)
    return new


def desugar_records(repo: Repo, ci: Optional[ClassInfo], sf: Optional[SourceFile], fn: ast.FunctionDef) -> ast.FunctionDef:
    """A local bound once to a record built in place (`codec = _RawCodec(t, encode=E1, decode=E2)`, namedtuple / NamedTuple /
    dataclass) and used only through its fields reads as those fields: `codec.decode(x)` is `E2(x)`.  The field expressions must
    be pure (names, attributes, constants, getattr) over names that are not rebound in the function."""
    from .packed import single_defs
    sf = sf or (ci.file if ci is not None else None)
    defs = single_defs(fn)
    stores: Dict[str, int] = {}
    for n in ast.walk(fn):
        if isinstance(n, ast.Name) and isinstance(n.ctx, (ast.Store, ast.Del)):
            stores[n.id] = stores.get(n.id, 0) + 1
    params = {a.arg for a in fn.args.args + fn.args.kwonlyargs}

    def pure(e: ast.expr) -> bool:
        for x in ast.walk(e):
            if isinstance(x, ast.Call) and norm(x.func) != "getattr" and not (
                    isinstance(x.func, ast.Attribute) and not x.keywords and all(isinstance(a, (ast.Name, ast.Constant)) for a in x.args)):
                return False            # (a query call on an object — `c.instance_value_type(self)` — is read as repeatable)
            if isinstance(x, (ast.Lambda, ast.ListComp, ast.GeneratorExp, ast.SetComp, ast.DictComp, ast.Yield, ast.YieldFrom, ast.Await, ast.NamedExpr, ast.Starred)):
                return False
            if isinstance(x, ast.Name) and isinstance(x.ctx, ast.Load) and stores.get(x.id, 0) > 1:
                return False
            if isinstance(x, ast.Name) and isinstance(x.ctx, ast.Load) and x.id in params and stores.get(x.id, 0) > 0:
                return False
        return True
    records: Dict[str, Dict[str, ast.expr]] = {}
    splits: Dict[str, List[Tuple[str, ast.expr]]] = {}
    for nm, v in defs.items():
        seen = 0
        while isinstance(v, ast.Name) and v.id in defs and seen < 4:
            v = defs[v.id]
            seen += 1
        if not (isinstance(v, ast.Call) and isinstance(v.func, (ast.Name, ast.Attribute)) and not any(isinstance(a, ast.Starred) for a in v.args)
                and not any(k.arg is None for k in v.keywords)):
            continue
        fields = record_fields(repo, ci, sf, v.func)
        if not fields or len(v.args) + len(v.keywords) != len(fields):
            continue
        m: Dict[str, ast.expr] = dict(zip(fields, v.args))
        for k in v.keywords:
            if k.arg not in fields or k.arg in m:
                m = {}
                break
            m[k.arg] = k.value
        if len(m) != len(fields):
            continue
        split = not all(pure(x) for x in m.values())
        # used only as `nm.field`
        uses = [n for n in ast.walk(fn) if isinstance(n, ast.Name) and n.id == nm and isinstance(n.ctx, ast.Load)]
        attr_uses = [n for n in ast.walk(fn) if isinstance(n, ast.Attribute) and isinstance(n.value, ast.Name) and n.value.id == nm
                     and isinstance(n.ctx, ast.Load) and n.attr in m]
        copies = [k2 for k2, v2 in defs.items() if isinstance(v2, ast.Name) and v2.id == nm]
        if len(uses) != len(attr_uses) + len(copies):
            continue
        if split:
            # field expressions that must be evaluated where the record is built (`len(xs)` before `xs.append`): one local per field
            if copies or len(v.args) + len(v.keywords) != len(fields):
                continue
            splits[nm] = [(f_, m[f_]) for f_ in ([fields[i] for i in range(len(v.args))] + [k.arg for k in v.keywords])]
            m = {f_: ast.Name(id=f"{nm}__{f_}", ctx=ast.Load()) for f_ in m}
        records[nm] = m
    if not records:
        return fn
    new = copy.deepcopy(fn)
    if splits:
        class SP(ast.NodeTransformer):
            def visit_Assign(self, node):
                if len(node.targets) == 1 and isinstance(node.targets[0], ast.Name) and node.targets[0].id in splits and isinstance(node.value, ast.Call):
                    return [ast.copy_location(ast.Assign(targets=[ast.Name(id=f"{node.targets[0].id}__{f_}", ctx=ast.Store())], value=copy.deepcopy(e_)), node)
                            for f_, e_ in splits[node.targets[0].id]]
                return self.generic_visit(node)
        new = SP().visit(new)

    class R(ast.NodeTransformer):
        def visit_Attribute(self, node):
            node = self.generic_visit(node)
            if isinstance(node.value, ast.Name) and node.value.id in records and isinstance(node.ctx, ast.Load) and node.attr in records[node.value.id]:
                return ast.copy_location(copy.deepcopy(records[node.value.id][node.attr]), node)
            return node
    new = R().visit(new)
    ast.fix_missing_locations(new)
    number(new)
    return new


def desugar_structs(repo: Repo, ci: Optional[ClassInfo], sf: Optional[SourceFile], fn: ast.FunctionDef) -> ast.FunctionDef:
    """`CODEC.pack(a, b)` with `CODEC = Struct("<HH")` (module / class constant, a once-bound local, or `Struct(f).pack` in
    place) reads as `pack("<HH", a, b)`; likewise `unpack`, `unpack_from(data, off)` (= `unpack(f, data[off:off + size])`) and
    `.size`.  A once-bound local naming a bound method (`put = CODEC.pack`) is read through, and so is a table of such
    methods indexed by a constant (`PACKERS[code](v)` with `PACKERS = {c: Struct("<" + c).pack for c in "bB"}`)."""
    from .packed import single_defs
    sf = sf or (ci.file if ci is not None else None)
    new = copy.deepcopy(fn)
    defs = single_defs(new)

    def struct_format(v: ast.expr, depth: int = 0) -> Optional[ast.expr]:
        if depth > 4:
            return None
        if isinstance(v, ast.Call) and norm(v.func).split(".")[-1] == "Struct" and len(v.args) == 1 and not v.keywords:
            return v.args[0]
        if isinstance(v, ast.Name) and v.id in defs:
            return struct_format(defs[v.id], depth + 1)
        d = definition_of(repo, ci, sf, v) if isinstance(v, (ast.Name, ast.Attribute)) else None
        if d is not None:
            f = struct_format(d, depth + 1)
            if f is not None:
                # the format expression belongs to the defining scope: keep it only if it folds to a constant there
                try:
                    val = repo.fold(f, ci=ci, sf=sf)
                    if isinstance(val, str):
                        return ast.Constant(value=val)
                except Exception:
                    pass
                if isinstance(f, ast.Constant):
                    return f
        return None

    def bound_method(v: ast.expr, depth: int = 0) -> Optional[Tuple[ast.expr, str]]:
        """(format, method) when `v` denotes `<struct>.pack` / `.unpack` / …"""
        if depth > 4:
            return None
        if isinstance(v, ast.Attribute) and v.attr in ("pack", "unpack", "unpack_from", "pack_into", "iter_unpack"):
            f = struct_format(v.value)
            if f is not None:
                return f, v.attr
        if isinstance(v, ast.Name) and v.id in defs:
            return bound_method(defs[v.id], depth + 1)
        if isinstance(v, (ast.Name, ast.Attribute)) and not (isinstance(v, ast.Attribute) and v.attr in ("pack", "unpack", "unpack_from", "pack_into", "iter_unpack")):
            # a module-level / class-level name bound to a bound method of a Struct: `_uint32 = Struct("<I").pack`
            try:
                d_bm = definition_of(repo, ci, sf, v)
            except Exception:
                d_bm = None
            if isinstance(d_bm, ast.Attribute):
                r_bm = bound_method(d_bm, depth + 1)
                if r_bm is not None:
                    # the format belongs to the defining scope: keep it only as a constant
                    try:
                        fv = repo.fold(r_bm[0], ci=ci, sf=sf)
                        if isinstance(fv, str):
                            return ast.Constant(value=fv), r_bm[1]
                    except Exception:
                        pass
        if isinstance(v, ast.Subscript):
            table = v.value
            if isinstance(table, ast.Name) and table.id in defs:
                table = defs[table.id]
            else:
                table = definition_of(repo, ci, sf, table) or table
            key = v.slice
            if isinstance(table, ast.DictComp) and len(table.generators) == 1 and not table.generators[0].ifs \
                    and isinstance(table.generators[0].target, ast.Name) and norm(table.key) == table.generators[0].target.id:
                env = {table.generators[0].target.id: key}
                val = _Rename(env).visit(copy.deepcopy(table.value))
                return bound_method(val, depth + 1)
            if isinstance(table, ast.Dict) and isinstance(key, ast.Constant):
                for k, val in zip(table.keys, table.values):
                    if isinstance(k, ast.Constant) and k.value == key.value:
                        return bound_method(val, depth + 1)
        return None

    def size_of(fmt: ast.expr) -> ast.expr:
        try:
            import struct as _st
            v = repo.fold(fmt, ci=ci, sf=sf)
            return ast.Constant(value=_st.calcsize(v))
        except Exception:
            return ast.Call(func=ast.Name(id="calcsize", ctx=ast.Load()), args=[copy.deepcopy(fmt)], keywords=[])

    def partial_of(v: ast.expr, depth: int = 0) -> Optional[ast.Call]:
        """the `partial(F, a, …)` call that `v` denotes (in place, a once-bound local, or a module / class constant whose
        bound arguments are constants)."""
        if depth > 4:
            return None
        if isinstance(v, ast.Call) and norm(v.func).split(".")[-1] == "partial" and v.args and isinstance(v.args[0], (ast.Name, ast.Attribute)) \
                and not any(isinstance(a, ast.Starred) for a in v.args) and not any(k.arg is None for k in v.keywords):
            return v
        if isinstance(v, ast.Name) and v.id in defs:
            return partial_of(defs[v.id], depth + 1)
        if isinstance(v, (ast.Name, ast.Attribute)):
            d = definition_of(repo, ci, sf, v)
            if d is not None:
                c = partial_of(d, depth + 1)
                if c is not None and all(isinstance(a, ast.Constant) for a in c.args[1:]) and all(isinstance(k.value, ast.Constant) for k in c.keywords) \
                        and isinstance(c.args[0], ast.Name):
                    return c
        return None

    class X(ast.NodeTransformer):
        def visit_Call(self, node):
            node = self.generic_visit(node)
            pc = partial_of(node.func) if isinstance(node.func, (ast.Call, ast.Name, ast.Attribute)) else None
            if pc is not None:
                # partial(F, a)(b) is F(a, b)
                node = ast.copy_location(ast.Call(func=copy.deepcopy(pc.args[0]), args=[copy.deepcopy(a) for a in pc.args[1:]] + node.args,
                                                  keywords=[copy.deepcopy(k) for k in pc.keywords] + node.keywords), node)
            bm = bound_method(node.func) if isinstance(node.func, (ast.Attribute, ast.Name, ast.Subscript)) else None
            if bm is None and norm(node.func) in ("unpack_from", "struct.unpack_from") and 2 <= len(node.args) <= 3 and not node.keywords \
                    and not any(isinstance(a, ast.Starred) for a in node.args):
                # the module-level function: unpack_from(F, data, off) is unpack(F, data[off:off + calcsize(F)])
                bm = (node.args[0], "unpack_from")
                node = ast.copy_location(ast.Call(func=node.func, args=node.args[1:], keywords=[]), node)
            if bm is None:
                return node
            fmt, meth = bm
            if meth in ("pack", "unpack"):
                new_call = ast.Call(func=ast.Name(id=meth, ctx=ast.Load()), args=[copy.deepcopy(fmt)] + node.args, keywords=node.keywords)
                return ast.copy_location(new_call, node)
            if meth == "unpack_from" and 1 <= len(node.args) <= 2 and not node.keywords:
                data = node.args[0]
                off = node.args[1] if len(node.args) == 2 else ast.Constant(value=0)
                sz = size_of(fmt)
                hi = ast.BinOp(left=copy.deepcopy(off), op=ast.Add(), right=sz) if not (isinstance(off, ast.Constant) and off.value == 0) else sz
                sl = ast.Subscript(value=data, slice=ast.Slice(lower=None if (isinstance(off, ast.Constant) and off.value == 0) else off, upper=hi, step=None),
                                   ctx=ast.Load())
                new_call = ast.Call(func=ast.Name(id="unpack", ctx=ast.Load()), args=[copy.deepcopy(fmt), sl], keywords=[])
                return ast.copy_location(new_call, node)
            return node

        def visit_Attribute(self, node):
            node = self.generic_visit(node)
            if node.attr == "size" and isinstance(node.ctx, ast.Load):
                f = struct_format(node.value)
                if f is not None:
                    return ast.copy_location(size_of(f), node)
            return node
    X().visit(new)
    ast.fix_missing_locations(new)
    number(new)
    return new


def split_tuple_assigns(fn: ast.FunctionDef) -> ast.FunctionDef:
    """`a, b = x, y` reads as `a = x; b = y` when no right-hand side reads a name bound on the left (so the order cannot matter)."""
    class X(ast.NodeTransformer):
        def visit_Assign(self, node):
            if len(node.targets) == 1 and isinstance(node.targets[0], (ast.Tuple, ast.List)) and isinstance(node.value, (ast.Tuple, ast.List)) \
                    and len(node.targets[0].elts) == len(node.value.elts) \
                    and not any(isinstance(x, ast.Starred) for x in node.targets[0].elts + node.value.elts):
                bound = {norm(t) for t in node.targets[0].elts}
                reads = {norm(n) for v in node.value.elts for n in ast.walk(v) if isinstance(n, (ast.Name, ast.Attribute, ast.Subscript))}
                if bound & reads:
                    return node
                out = []
                for t, v in zip(node.targets[0].elts, node.value.elts):
                    a = ast.copy_location(ast.Assign(targets=[t], value=v), node)
                    for k, val in getattr(node, "__dict__", {}).items():
                        if k in ("_synthetic", "_src_lineno"):
                            setattr(a, k, val)
                    out.append(a)
                return out
            # p, q = pair   with `pair` a once-bound tuple display that is only indexed / unpacked:   p = pair__0; q = pair__1
            if len(node.targets) == 1 and isinstance(node.targets[0], (ast.Tuple, ast.List)) and isinstance(node.value, ast.Name) \
                    and node.value.id in indexed_only and len(node.targets[0].elts) == tuple_arity.get(node.value.id):
                out = []
                for i, t in enumerate(node.targets[0].elts):
                    out.append(ast.copy_location(ast.Assign(targets=[t], value=ast.Name(id=f"{node.value.id}__{i}", ctx=ast.Load())), node))
                return out
            # (x,) = CALL inside a helper that is read as an expression:  handled by as_expression (x = CALL[0])
            # head, _, _ = data.partition(sep)   reads as   head = data.partition(sep)[0]   (names that are never read are dropped)
            if len(node.targets) == 1 and isinstance(node.targets[0], (ast.Tuple, ast.List)) and len(node.targets[0].elts) == 3 \
                    and isinstance(node.value, ast.Call) and isinstance(node.value.func, ast.Attribute) and node.value.func.attr in ("partition", "rpartition") \
                    and isinstance(node.value.func.value, (ast.Name, ast.Attribute)) and all(isinstance(t, ast.Name) for t in node.targets[0].elts):
                out = []
                for i, t in enumerate(node.targets[0].elts):
                    if t.id in read_names:
                        v = ast.Subscript(value=copy.deepcopy(node.value), slice=ast.Constant(value=i), ctx=ast.Load())
                        out.append(ast.copy_location(ast.Assign(targets=[ast.Name(id=t.id, ctx=ast.Store())], value=v), node))
                return out or [ast.copy_location(ast.Expr(value=node.value), node)]
            # pair = a, b  with `pair` only ever read as pair[0] / pair[1]:   pair__0 = a; pair__1 = b
            if len(node.targets) == 1 and isinstance(node.targets[0], ast.Name) and isinstance(node.value, ast.Tuple) \
                    and node.targets[0].id in indexed_only and not any(isinstance(x, ast.Starred) for x in node.value.elts) \
                    and indexed_only[node.targets[0].id] < len(node.value.elts):
                nm = node.targets[0].id
                out = []
                for i, v in enumerate(node.value.elts):
                    out.append(ast.copy_location(ast.Assign(targets=[ast.Name(id=f"{nm}__{i}", ctx=ast.Store())], value=v), node))
                return out
            # q, r = divmod(x, k)   reads as   q = x // k; r = x % k      (x a plain name or attribute: evaluated twice is the same)
            if len(node.targets) == 1 and isinstance(node.targets[0], (ast.Tuple, ast.List)) and len(node.targets[0].elts) == 2 \
                    and isinstance(node.value, ast.Call) and norm(node.value.func) == "divmod" and len(node.value.args) == 2 \
                    and all(isinstance(a, (ast.Name, ast.Attribute, ast.Constant)) or
                            (isinstance(a, (ast.BinOp, ast.UnaryOp)) and all(isinstance(x, (ast.Name, ast.Attribute, ast.Constant, ast.BinOp, ast.UnaryOp,
                                                                                             ast.operator, ast.unaryop, ast.expr_context))
                                                                             for x in ast.walk(a))) or
                            (isinstance(a, ast.Subscript) and isinstance(a.value, ast.Call) and norm(a.value.func) in ("unpack", "struct.unpack")
                             and not any(isinstance(x, ast.Call) for y in a.value.args for x in ast.walk(y))) for a in node.value.args) \
                    and not ({norm(t) for t in node.targets[0].elts} & {norm(a) for a in node.value.args}):
                x, k = node.value.args
                q = ast.copy_location(ast.Assign(targets=[node.targets[0].elts[0]], value=ast.BinOp(left=copy.deepcopy(x), op=ast.FloorDiv(), right=copy.deepcopy(k))), node)
                r = ast.copy_location(ast.Assign(targets=[node.targets[0].elts[1]], value=ast.BinOp(left=copy.deepcopy(x), op=ast.Mod(), right=copy.deepcopy(k))), node)
                return [q, r]
            return node

        def visit_Subscript(self, node):
            node = self.generic_visit(node)
            if isinstance(node.value, ast.Name) and node.value.id in indexed_only and isinstance(node.slice, ast.Constant) and isinstance(node.ctx, ast.Load):
                return ast.copy_location(ast.Name(id=f"{node.value.id}__{node.slice.value}", ctx=ast.Load()), node)
            return node

        def visit_Lambda(self, node):
            return node
    new = copy.deepcopy(fn)
    # plain copies of once-bound locals (`ret = indexes`, both bound once) are read through first
    for _ in range(3):
        st0: Dict[str, int] = {}
        for n in ast.walk(new):
            if isinstance(n, ast.Name) and isinstance(n.ctx, (ast.Store, ast.Del)):
                st0[n.id] = st0.get(n.id, 0) + 1
        pset = {a.arg for a in new.args.args + new.args.kwonlyargs}
        copies = {n.targets[0].id: n.value.id for n in ast.walk(new) if isinstance(n, ast.Assign) and len(n.targets) == 1
                  and isinstance(n.targets[0], ast.Name) and isinstance(n.value, ast.Name) and st0.get(n.targets[0].id) == 1
                  and st0.get(n.value.id) == 1 and n.value.id not in pset and n.targets[0].id != n.value.id}
        copies = {k: v for k, v in copies.items() if v not in copies}
        if not copies:
            break

        class CP(ast.NodeTransformer):
            def visit_Assign(self, node):
                if len(node.targets) == 1 and isinstance(node.targets[0], ast.Name) and node.targets[0].id in copies and isinstance(node.value, ast.Name):
                    return None
                return self.generic_visit(node)

            def visit_Name(self, node):
                if isinstance(node.ctx, ast.Load) and node.id in copies:
                    return ast.copy_location(ast.Name(id=copies[node.id], ctx=ast.Load()), node)
                return node
        new = CP().visit(new)
        for n in ast.walk(new):
            for fld in ("body", "orelse", "finalbody"):
                if isinstance(getattr(n, fld, None), list) and fld == "body" and not getattr(n, fld) and not isinstance(n, ast.Module):
                    n.body = [ast.Pass()]
    # once-bound locals holding a tuple display that are read only through constant subscripts: name -> highest index
    stores: Dict[str, int] = {}
    for n in ast.walk(new):
        if isinstance(n, ast.Name) and isinstance(n.ctx, (ast.Store, ast.Del)):
            stores[n.id] = stores.get(n.id, 0) + 1
    sub_loads: Dict[str, List[int]] = {}
    plain_loads: Set[str] = set()
    subscripted = {id(n.value) for n in ast.walk(new) if isinstance(n, ast.Subscript) and isinstance(n.value, ast.Name)
                   and isinstance(n.slice, ast.Constant) and isinstance(n.slice.value, int) and n.slice.value >= 0 and isinstance(n.ctx, ast.Load)}
    for n in ast.walk(new):
        if isinstance(n, ast.Subscript) and id(n.value) in subscripted:
            sub_loads.setdefault(n.value.id, []).append(n.slice.value)
    # whole-tuple unpacking `p, q = pair` counts as indexed use
    unpacked_ids = set()
    tuple_arity: Dict[str, int] = {n.targets[0].id: len(n.value.elts) for n in ast.walk(new) if isinstance(n, ast.Assign) and len(n.targets) == 1
                                   and isinstance(n.targets[0], ast.Name) and isinstance(n.value, ast.Tuple)}
    for n in ast.walk(new):
        if isinstance(n, ast.Assign) and len(n.targets) == 1 and isinstance(n.targets[0], (ast.Tuple, ast.List)) and isinstance(n.value, ast.Name) \
                and tuple_arity.get(n.value.id) == len(n.targets[0].elts):
            unpacked_ids.add(id(n.value))
            sub_loads.setdefault(n.value.id, []).append(len(n.targets[0].elts) - 1)
    for n in ast.walk(new):
        if isinstance(n, ast.Name) and isinstance(n.ctx, ast.Load) and id(n) not in subscripted and id(n) not in unpacked_ids:
            plain_loads.add(n.id)
    tuple_defs = {n.targets[0].id for n in ast.walk(new) if isinstance(n, ast.Assign) and len(n.targets) == 1 and isinstance(n.targets[0], ast.Name)
                  and isinstance(n.value, ast.Tuple)}
    params_ = {a.arg for a in new.args.args + new.args.kwonlyargs}
    read_names = {n.id for n in ast.walk(new) if isinstance(n, ast.Name) and isinstance(n.ctx, ast.Load)}
    indexed_only: Dict[str, int] = {k: max(v) for k, v in sub_loads.items() if k in tuple_defs and stores.get(k) == 1 and k not in plain_loads and k not in params_}
    X().visit(new)
    ast.fix_missing_locations(new)
    number(new)
    return new


def fold_module_names(repo: Repo, sf: SourceFile, fn: ast.FunctionDef, ci: Optional[ClassInfo] = None, kinds=(int, str, bytes)) -> ast.FunctionDef:
    """Free names (and `self.X` / `Class.X` class constants) that fold to an int / str / bytes constant are written as that constant."""
    new = copy.deepcopy(fn)
    bound = {a.arg for a in new.args.args + new.args.kwonlyargs} | {n.id for n in ast.walk(new) if isinstance(n, ast.Name) and isinstance(n.ctx, (ast.Store, ast.Del))}

    class K(ast.NodeTransformer):
        def visit_Name(self, node):
            if isinstance(node.ctx, ast.Load) and node.id not in bound:
                try:
                    v = repo.fold(node, ci=ci, sf=sf)
                    if isinstance(v, kinds) and not isinstance(v, bool):
                        return ast.copy_location(ast.Constant(value=v), node)
                except Exception:
                    pass
            return node

        def visit_Attribute(self, node):
            node = self.generic_visit(node)
            if isinstance(node.ctx, ast.Load) and isinstance(node.value, ast.Name) and ci is not None:
                try:
                    v = repo.fold(node, ci=ci, sf=sf)
                    if isinstance(v, kinds) and not isinstance(v, bool) and node.attr.upper() == node.attr:
                        return ast.copy_location(ast.Constant(value=v), node)
                except Exception:
                    pass
            return node
    new = K().visit(new)
    ast.fix_missing_locations(new)
    number(new)
    return new


def desugar_suppress(fn: ast.FunctionDef) -> ast.FunctionDef:
    """`with suppress(E): BODY` (contextlib) reads as `try: BODY` / `except E: pass`."""
    class X(ast.NodeTransformer):
        def visit_With(self, node):
            node = self.generic_visit(node)
            if len(node.items) == 1 and node.items[0].optional_vars is None and isinstance(node.items[0].context_expr, ast.Call) \
                    and norm(node.items[0].context_expr.func).split(".")[-1] == "suppress" and node.items[0].context_expr.args:
                excs = node.items[0].context_expr.args
                typ = excs[0] if len(excs) == 1 else ast.Tuple(elts=list(excs), ctx=ast.Load())
                h = ast.ExceptHandler(type=typ, name=None, body=[ast.Pass()])
                return ast.copy_location(ast.Try(body=node.body, handlers=[h], orelse=[], finalbody=[]), node)
            return node
    new = copy.deepcopy(fn)
    X().visit(new)
    ast.fix_missing_locations(new)
    number(new)
    return new


def fold_flag_loops(fn: ast.FunctionDef) -> ast.FunctionDef:
    """`found = False; for x in X: if C: found = True; break`  reads as  `found = any(C for x in X)`  (and the True/False mirror image
    as `not any(...)`).  The loop body must be exactly that `if` (the `break` is optional) and `C` must not call anything."""
    def rewrite(stmts: List[ast.stmt]) -> List[ast.stmt]:
        out: List[ast.stmt] = []
        i = 0
        while i < len(stmts):
            st = stmts[i]
            nxt = stmts[i + 1] if i + 1 < len(stmts) else None
            done = False
            if isinstance(st, ast.Assign) and len(st.targets) == 1 and isinstance(st.targets[0], ast.Name) and isinstance(st.value, ast.Constant) \
                    and isinstance(st.value.value, bool) and isinstance(nxt, ast.For) and not nxt.orelse and len(nxt.body) == 1 \
                    and isinstance(nxt.body[0], ast.If) and not nxt.body[0].orelse:
                flag, k0 = st.targets[0].id, st.value.value
                iff = nxt.body[0]
                body = [b for b in iff.body if not isinstance(b, ast.Break)]
                if len(body) == 1 and isinstance(body[0], ast.Assign) and len(body[0].targets) == 1 and norm(body[0].targets[0]) == flag \
                        and isinstance(body[0].value, ast.Constant) and body[0].value.value is (not k0) \
                        and not any(isinstance(n, (ast.Call, ast.Await, ast.Yield, ast.YieldFrom, ast.NamedExpr)) for n in ast.walk(iff.test)) \
                        and not any(isinstance(n, ast.Name) and n.id == flag for n in ast.walk(iff.test)):
                    gen = ast.GeneratorExp(elt=iff.test, generators=[ast.comprehension(target=nxt.target, iter=nxt.iter, ifs=[], is_async=0)])
                    val: ast.expr = ast.Call(func=ast.Name(id="any", ctx=ast.Load()), args=[gen], keywords=[])
                    if k0:
                        val = ast.UnaryOp(op=ast.Not(), operand=val)
                    out.append(ast.copy_location(ast.Assign(targets=[ast.Name(id=flag, ctx=ast.Store())], value=val), st))
                    i += 2
                    done = True
            if not done:
                for fld in ("body", "orelse", "finalbody"):
                    sub = getattr(st, fld, None)
                    if isinstance(sub, list) and sub and isinstance(sub[0], ast.stmt) and not isinstance(st, (ast.FunctionDef, ast.ClassDef)):
                        setattr(st, fld, rewrite(sub))
                if isinstance(st, ast.Try):
                    for h in st.handlers:
                        h.body = rewrite(h.body)
                out.append(st)
                i += 1
        return out
    new = copy.deepcopy(fn)
    new.body = rewrite(new.body)
    ast.fix_missing_locations(new)
    number(new)
    return new


def nest_loop_continues(fn: ast.FunctionDef) -> ast.FunctionDef:
    """In every loop body, `if c: continue` followed by REST reads as `if not c: REST` (see _nest_continues)."""
    class X(ast.NodeTransformer):
        def _loop(self, node):
            node = self.generic_visit(node)
            node.body = _nest_continues_deep(node.body) or [ast.Pass()]
            return node
        visit_For = visit_While = _loop

        def visit_If(self, node):
            node = self.generic_visit(node)
            return node
    new = copy.deepcopy(fn)
    X().visit(new)
    ast.fix_missing_locations(new)
    number(new)
    return new


def pop_loops_as_for(fn: ast.FunctionDef) -> ast.FunctionDef:
    """`while L: T = L.pop(); BODY`  (L a once-bound local list that nothing else touches)  reads as  `for T in reversed(L): BODY`;
    with `L.pop(0)` it is `for T in L`."""
    stores: Dict[str, int] = {}
    for n in ast.walk(fn):
        if isinstance(n, ast.Name) and isinstance(n.ctx, (ast.Store, ast.Del)):
            stores[n.id] = stores.get(n.id, 0) + 1

    class X(ast.NodeTransformer):
        def visit_While(self, node):
            node = self.generic_visit(node)
            if node.orelse or not isinstance(node.test, ast.Name) or stores.get(node.test.id) != 1 or not node.body:
                return node
            L = node.test.id
            first = node.body[0]
            if not (isinstance(first, ast.Assign) and len(first.targets) == 1 and isinstance(first.value, ast.Call)
                    and isinstance(first.value.func, ast.Attribute) and first.value.func.attr == "pop" and norm(first.value.func.value) == L):
                return node
            args = first.value.args
            front = len(args) == 1 and isinstance(args[0], ast.Constant) and args[0].value == 0
            if args and not front:
                return node
            rest = node.body[1:]
            if any(isinstance(x, ast.Name) and x.id == L for b in rest for x in ast.walk(b)) or \
                    any(isinstance(x, (ast.Break, ast.Continue)) for b in rest for x in ast.walk(b)):
                return node
            uses_elsewhere = sum(1 for x in ast.walk(fn) if isinstance(x, ast.Name) and x.id == L and isinstance(x.ctx, ast.Load))
            if uses_elsewhere != 2:            # the loop test and the pop
                return node
            it: ast.expr = ast.Name(id=L, ctx=ast.Load())
            if not front:
                it = ast.Call(func=ast.Name(id="reversed", ctx=ast.Load()), args=[it], keywords=[])
            return ast.copy_location(ast.For(target=first.targets[0], iter=it, body=rest or [ast.Pass()], orelse=[]), node)
    new = copy.deepcopy(fn)
    X().visit(new)
    ast.fix_missing_locations(new)
    number(new)
    return new


def split_conditional_callee(fn: ast.FunctionDef) -> ast.FunctionDef:
    """`f = A if c else B` (bound once) followed by the statement `f(args)` reads as `if c: A(args)` / `else: B(args)`."""
    from .packed import single_defs
    defs = single_defs(fn)
    cands = {k: v for k, v in defs.items() if isinstance(v, ast.IfExp) and all(isinstance(b, (ast.Name, ast.Attribute)) for b in (v.body, v.orelse))}
    if not cands:
        return fn
    uses: Dict[str, int] = {}
    for n in ast.walk(fn):
        if isinstance(n, ast.Name) and isinstance(n.ctx, ast.Load) and n.id in cands:
            uses[n.id] = uses.get(n.id, 0) + 1
    done: Set[str] = set()
    # definitions directly followed by the call statement: nothing can change the condition in between
    adjacent: Set[str] = set()
    for blk_owner in ast.walk(fn):
        for fld in ("body", "orelse", "finalbody"):
            blk = getattr(blk_owner, fld, None)
            if isinstance(blk, list):
                for a_, b_ in zip(blk, blk[1:]):
                    if isinstance(a_, ast.Assign) and len(a_.targets) == 1 and isinstance(a_.targets[0], ast.Name) and a_.targets[0].id in cands \
                            and isinstance(b_, ast.Expr) and isinstance(b_.value, ast.Call) and isinstance(b_.value.func, ast.Name) and b_.value.func.id == a_.targets[0].id:
                        adjacent.add(a_.targets[0].id)

    class X(ast.NodeTransformer):
        def visit_Expr(self, node):
            c = node.value
            if isinstance(c, ast.Call) and isinstance(c.func, ast.Name) and c.func.id in cands and uses.get(c.func.id) == 1:
                ie = cands[c.func.id]
                # the condition must not be changed between the definition and the call: only plain-name conditions are moved
                pure_adjacent = c.func.id in adjacent and all(isinstance(x, (ast.Name, ast.Attribute, ast.Constant, ast.Compare, ast.UnaryOp, ast.Not, ast.Load,
                                                                              ast.BoolOp, ast.And, ast.Or, ast.cmpop)) for x in ast.walk(ie.test))
                if pure_adjacent or all(isinstance(x, (ast.Name, ast.UnaryOp, ast.Not, ast.Load, ast.BoolOp, ast.And, ast.Or)) for x in ast.walk(ie.test)):
                    a = ast.Expr(value=ast.Call(func=copy.deepcopy(ie.body), args=copy.deepcopy(c.args), keywords=copy.deepcopy(c.keywords)))
                    b = ast.Expr(value=ast.Call(func=copy.deepcopy(ie.orelse), args=copy.deepcopy(c.args), keywords=copy.deepcopy(c.keywords)))
                    done.add(c.func.id)
                    return ast.copy_location(ast.If(test=copy.deepcopy(ie.test), body=[a], orelse=[b]), node)
            return node

        def visit_Assign(self, node):
            c = node.value
            if isinstance(c, ast.Call) and isinstance(c.func, ast.Name) and c.func.id in cands and uses.get(c.func.id) == 1 \
                    and not (len(node.targets) == 1 and isinstance(node.targets[0], ast.Name) and node.targets[0].id == c.func.id):
                ie = cands[c.func.id]
                if all(isinstance(x, (ast.Name, ast.Attribute, ast.Constant, ast.Compare, ast.UnaryOp, ast.Not, ast.Load, ast.BoolOp, ast.And, ast.Or, ast.cmpop))
                       for x in ast.walk(ie.test)):
                    a = ast.Assign(targets=copy.deepcopy(node.targets), value=ast.Call(func=copy.deepcopy(ie.body), args=copy.deepcopy(c.args), keywords=copy.deepcopy(c.keywords)))
                    b = ast.Assign(targets=copy.deepcopy(node.targets), value=ast.Call(func=copy.deepcopy(ie.orelse), args=copy.deepcopy(c.args), keywords=copy.deepcopy(c.keywords)))
                    done.add(c.func.id)
                    return ast.copy_location(ast.If(test=copy.deepcopy(ie.test), body=[a], orelse=[b]), node)
            return node
    new = copy.deepcopy(fn)
    X().visit(new)
    if done:
        class Drop(ast.NodeTransformer):
            def visit_Assign(self, node):
                if len(node.targets) == 1 and isinstance(node.targets[0], ast.Name) and node.targets[0].id in done:
                    return None
                return node
        Drop().visit(new)
    ast.fix_missing_locations(new)
    number(new)
    return new


def simplify_constants(fn: ast.FunctionDef) -> ast.FunctionDef:
    """Boolean constants left behind by unrolling a table (`value != 0 or not False`) are folded, and `if True:` / `if False:`
    are replaced by the branch taken.  Operands that are dropped must be free of calls."""
    def pure(e: ast.expr) -> bool:
        return not any(isinstance(n, (ast.Call, ast.Await, ast.Yield, ast.YieldFrom, ast.NamedExpr)) for n in ast.walk(e))

    def truth(e: ast.expr) -> Optional[bool]:
        if isinstance(e, ast.Constant) and (isinstance(e.value, (bool, int, str, bytes)) or e.value is None):
            return bool(e.value)
        return None

    class X(ast.NodeTransformer):
        def visit_UnaryOp(self, node):
            node = self.generic_visit(node)
            if isinstance(node.op, ast.Not) and truth(node.operand) is not None:
                return ast.copy_location(ast.Constant(value=not truth(node.operand)), node)
            return node

        def visit_BoolOp(self, node):
            node = self.generic_visit(node)
            is_and = isinstance(node.op, ast.And)
            absorbing = not is_and          # `or`: a true operand decides; `and`: a false one
            kept = []
            for v in node.values:
                t = truth(v)
                if t is None:
                    kept.append(v)
                elif t == absorbing:
                    if all(pure(k) for k in kept) and isinstance(v, ast.Constant) and isinstance(v.value, bool):
                        return ast.copy_location(ast.Constant(value=absorbing), node)
                    kept.append(v)
                    break                  # later operands are never evaluated
                elif not (isinstance(v, ast.Constant) and isinstance(v.value, bool)):
                    kept.append(v)
                # a neutral boolean constant is dropped
            if not kept:
                return ast.copy_location(ast.Constant(value=not absorbing), node)
            if len(kept) == 1:
                return kept[0]
            node.values = kept
            return node

        def visit_IfExp(self, node):
            node = self.generic_visit(node)
            t = truth(node.test)
            if t is not None:
                return node.body if t else node.orelse
            return node

        def visit_If(self, node):
            node = self.generic_visit(node)
            t = truth(node.test)
            if t is not None:
                taken = node.body if t else node.orelse
                return taken or [ast.copy_location(ast.Pass(), node)]
            return node
    new = copy.deepcopy(fn)
    X().visit(new)
    for n in ast.walk(new):
        for fld in ("body",):
            if isinstance(getattr(n, fld, None), list) and not n.body and not isinstance(n, ast.Module):
                n.body = [ast.Pass()]
    ast.fix_missing_locations(new)
    number(new)
    return new


def rename_sequential_defs(fn: ast.FunctionDef) -> ast.FunctionDef:
    """A plain local that is assigned several times *in the same statement list* (`value = a; yield f(value); value = b; …`, what
    unrolling a table leaves behind) gets a fresh name per assignment, so that every name has one definition.  Only names whose
    every binding is a plain `name = expr` directly in one list (not in nested statements, not a loop target, not augmented)."""
    new = copy.deepcopy(fn)
    params = {a.arg for a in new.args.args + new.args.kwonlyargs}
    counter = [0]

    def binds_anywhere(name: str, node: ast.AST) -> int:
        return sum(1 for n in ast.walk(node) if isinstance(n, ast.Name) and n.id == name and isinstance(n.ctx, (ast.Store, ast.Del)))

    def block(stmts: List[ast.stmt]) -> None:
        direct: Dict[str, List[int]] = {}
        for i, st in enumerate(stmts):
            if isinstance(st, ast.Assign) and len(st.targets) == 1 and isinstance(st.targets[0], ast.Name):
                direct.setdefault(st.targets[0].id, []).append(i)
        for name, idxs in direct.items():
            if len(idxs) < 2 or name in params:
                continue
            if binds_anywhere(name, new) != len(idxs):
                continue                       # also bound elsewhere (nested statement, loop target, other list)
            loads_outside = sum(1 for n in ast.walk(new) if isinstance(n, ast.Name) and n.id == name and isinstance(n.ctx, ast.Load)) - \
                sum(1 for st in stmts for n in ast.walk(st) if isinstance(n, ast.Name) and n.id == name and isinstance(n.ctx, ast.Load))
            if loads_outside:
                continue
            # segment k: statements idxs[k] (its value still reads the previous name) .. idxs[k+1]-1
            prev = name
            for k, start in enumerate(idxs):
                end = idxs[k + 1] if k + 1 < len(idxs) else len(stmts)
                if k == 0:
                    continue
                counter[0] += 1
                fresh = f"{name}__s{counter[0]}"
                st = stmts[start]
                st.value = _Rename({name: ast.Name(id=prev, ctx=ast.Load())}).visit(st.value) if prev != name else st.value
                st.targets = [ast.Name(id=fresh, ctx=ast.Store())]
                ren = _Rename({name: ast.Name(id=fresh, ctx=ast.Load())})
                for j in range(start + 1, end):
                    stmts[j] = ren.visit(stmts[j])
                # the next redefinition's right-hand side reads this segment's name
                prev = fresh
                if k + 1 < len(idxs):
                    nxt = stmts[idxs[k + 1]]
                    nxt.value = ren.visit(nxt.value)
                    prev = name          # already substituted
        for st in stmts:
            for fld in ("body", "orelse", "finalbody"):
                sub = getattr(st, fld, None)
                if isinstance(sub, list) and sub and isinstance(sub[0], ast.stmt) and not isinstance(st, (ast.FunctionDef, ast.ClassDef)):
                    block(sub)
            if isinstance(st, ast.Try):
                for h in st.handlers:
                    block(h.body)
    block(new.body)
    ast.fix_missing_locations(new)
    number(new)
    return new


def propagate_copies(fn: ast.FunctionDef) -> ast.FunctionDef:
    """`b = a` with both names bound exactly once (and `a` not a parameter): `b` is read as `a`."""
    new = copy.deepcopy(fn)
    changed_any = False
    for _ in range(4):
        st0: Dict[str, int] = {}
        for n in ast.walk(new):
            if isinstance(n, ast.Name) and isinstance(n.ctx, (ast.Store, ast.Del)):
                st0[n.id] = st0.get(n.id, 0) + 1
        pset = {a.arg for a in new.args.args + new.args.kwonlyargs}
        loop_targets = {m.id for n in ast.walk(new) if isinstance(n, (ast.For, ast.comprehension)) for m in ast.walk(n.target) if isinstance(m, ast.Name)}
        copies = {n.targets[0].id: n.value.id for n in ast.walk(new) if isinstance(n, ast.Assign) and len(n.targets) == 1
                  and isinstance(n.targets[0], ast.Name) and isinstance(n.value, ast.Name) and st0.get(n.targets[0].id) == 1
                  and st0.get(n.value.id) == 1 and n.value.id not in pset and n.value.id not in loop_targets and n.targets[0].id != n.value.id}
        copies = {k: v for k, v in copies.items() if v not in copies}
        if not copies:
            break
        changed_any = True

        class CP(ast.NodeTransformer):
            def visit_Assign(self, node):
                if len(node.targets) == 1 and isinstance(node.targets[0], ast.Name) and node.targets[0].id in copies and isinstance(node.value, ast.Name):
                    return None
                return self.generic_visit(node)

            def visit_Name(self, node):
                if isinstance(node.ctx, ast.Load) and node.id in copies:
                    return ast.copy_location(ast.Name(id=copies[node.id], ctx=ast.Load()), node)
                return node
        new = CP().visit(new)
        for n in ast.walk(new):
            if isinstance(getattr(n, "body", None), list) and not n.body and not isinstance(n, ast.Module):
                n.body = [ast.Pass()]
    if not changed_any:
        return fn
    ast.fix_missing_locations(new)
    number(new)
    return new


def resolve_const_rows(repo: Repo, ci: Optional[ClassInfo], sf: Optional[SourceFile], out: ast.FunctionDef) -> bool:
    """In place: `shift, mask = self._LEVEL_MODE` (or through a local bound once to that name) with the class / module constant
    written as a tuple display of constants gets the display itself as its value.  True when something was rewritten."""
    if not any(isinstance(n, ast.Assign) and len(n.targets) == 1 and isinstance(n.targets[0], (ast.Tuple, ast.List)) and isinstance(n.value, (ast.Name, ast.Attribute))
               for n in ast.walk(out)):
        return False
    bound_names = {n.id for n in ast.walk(out) if isinstance(n, ast.Name) and isinstance(n.ctx, (ast.Store, ast.Del))} | {a.arg for a in out.args.args}
    changed_ = False
    for n in ast.walk(out):
        if isinstance(n, ast.Assign) and len(n.targets) == 1 and isinstance(n.targets[0], (ast.Tuple, ast.List)) and isinstance(n.value, (ast.Name, ast.Attribute)):
            src_ = n.value
            if isinstance(src_, ast.Name) and src_.id in bound_names:
                from .packed import single_defs as _sd
                dd = _sd(out).get(src_.id)
                if isinstance(dd, (ast.Attribute, ast.Name)) and not (isinstance(dd, ast.Name) and dd.id in bound_names):
                    src_ = dd
                else:
                    continue
            try:
                d_ = definition_of(repo, ci, sf, src_)
            except Exception:
                d_ = None
            if isinstance(d_, ast.Tuple) and len(d_.elts) == len(n.targets[0].elts) and all(
                    isinstance(x, ast.Constant) or (isinstance(x, ast.UnaryOp) and isinstance(x.operand, ast.Constant)) for x in d_.elts):
                n.value = copy.deepcopy(d_)
                changed_ = True
    if changed_:
        ast.fix_missing_locations(out)
    return changed_


def propagate_int_constants(fn: ast.FunctionDef) -> ast.FunctionDef:
    """A local bound exactly once to an integer literal (`shift = 26` after a constant row was unpacked), not a parameter or loop
    variable, and bound before every read (straight-line: its definition comes first in source order), is read as the literal."""
    st0: Dict[str, int] = {}
    for n in ast.walk(fn):
        if isinstance(n, ast.Name) and isinstance(n.ctx, (ast.Store, ast.Del)):
            st0[n.id] = st0.get(n.id, 0) + 1
    pset = {a.arg for a in fn.args.args + fn.args.kwonlyargs}
    loop_targets = {m.id for n in ast.walk(fn) if isinstance(n, (ast.For, ast.comprehension)) for m in ast.walk(n.target) if isinstance(m, ast.Name)}
    consts: Dict[str, ast.Constant] = {}
    defs_at: Dict[str, int] = {}
    for n in ast.walk(fn):
        if isinstance(n, ast.Assign) and len(n.targets) == 1 and isinstance(n.targets[0], ast.Name) and st0.get(n.targets[0].id) == 1 \
                and n.targets[0].id not in pset and n.targets[0].id not in loop_targets:
            v = n.value
            if isinstance(v, ast.UnaryOp) and isinstance(v.op, ast.USub) and isinstance(v.operand, ast.Constant) and isinstance(v.operand.value, int):
                v = ast.Constant(value=-v.operand.value)
            elif isinstance(v, ast.BinOp) and all(isinstance(x, (ast.BinOp, ast.UnaryOp, ast.Constant, ast.operator, ast.unaryop)) for x in ast.walk(v)) \
                    and all(isinstance(x.value, int) and not isinstance(x.value, bool) for x in ast.walk(v) if isinstance(x, ast.Constant)) \
                    and not any(isinstance(x, (ast.Div, ast.Pow, ast.LShift)) for x in ast.walk(v)):
                # arithmetic over integer literals (`12 * 2 * 2`): its value
                def _fold_int(x):
                    if isinstance(x, ast.Constant):
                        return x.value
                    if isinstance(x, ast.UnaryOp) and isinstance(x.op, (ast.USub, ast.UAdd, ast.Invert)):
                        o_ = _fold_int(x.operand)
                        return -o_ if isinstance(x.op, ast.USub) else (~o_ if isinstance(x.op, ast.Invert) else o_)
                    if isinstance(x, ast.BinOp):
                        a_, b_ = _fold_int(x.left), _fold_int(x.right)
                        ops_ = {ast.Add: lambda p_, q_: p_ + q_, ast.Sub: lambda p_, q_: p_ - q_, ast.Mult: lambda p_, q_: p_ * q_,
                                ast.FloorDiv: lambda p_, q_: p_ // q_, ast.Mod: lambda p_, q_: p_ % q_, ast.BitAnd: lambda p_, q_: p_ & q_,
                                ast.BitOr: lambda p_, q_: p_ | q_, ast.BitXor: lambda p_, q_: p_ ^ q_, ast.RShift: lambda p_, q_: p_ >> q_}
                        return ops_[type(x.op)](a_, b_)
                    raise ValueError
                try:
                    val_ = _fold_int(v)
                    if isinstance(val_, int) and not isinstance(val_, bool):
                        v = ast.Constant(value=val_)
                except Exception:
                    pass
            if isinstance(v, ast.Constant) and isinstance(v.value, int) and not isinstance(v.value, bool):
                consts[n.targets[0].id] = v
                defs_at[n.targets[0].id] = pos(n)
    for nm in list(consts):
        if any(isinstance(n, ast.Name) and n.id == nm and isinstance(n.ctx, ast.Load) and pos(n) < defs_at[nm] for n in ast.walk(fn)):
            del consts[nm]
    if not consts:
        return fn

    class K(ast.NodeTransformer):
        def visit_Assign(self, node):
            if len(node.targets) == 1 and isinstance(node.targets[0], ast.Name) and node.targets[0].id in consts:
                return None
            return self.generic_visit(node)

        def visit_Name(self, node):
            if isinstance(node.ctx, ast.Load) and node.id in consts:
                return ast.copy_location(ast.Constant(value=consts[node.id].value), node)
            return node
    new = K().visit(copy.deepcopy(fn))
    for n in ast.walk(new):
        if isinstance(getattr(n, "body", None), list) and not n.body and not isinstance(n, ast.Module):
            n.body = [ast.Pass()]
    ast.fix_missing_locations(new)
    number(new)
    return new


def _stmt_lists(fn: ast.FunctionDef):
    """(statement list, enclosing loops, conditional?) for every statement list of fn (nested function bodies excluded)."""
    out = []

    def rec(stmts, loops, cond):
        out.append((stmts, loops, cond))
        for st in stmts:
            if isinstance(st, (ast.FunctionDef, ast.AsyncFunctionDef, ast.ClassDef)):
                continue
            if isinstance(st, (ast.For, ast.AsyncFor, ast.While)):
                rec(st.body, loops + [st], cond)
                if st.orelse:
                    rec(st.orelse, loops, True)
            elif isinstance(st, ast.If):
                rec(st.body, loops, True)
                if st.orelse:
                    rec(st.orelse, loops, True)
            elif isinstance(st, (ast.With, ast.AsyncWith)):
                rec(st.body, loops, cond)
            elif isinstance(st, ast.Try):
                rec(st.body, loops, True)
                for h in st.handlers:
                    rec(h.body, loops, True)
                rec(st.orelse, loops, True)
                rec(st.finalbody, loops, True)
    rec(fn.body, [], False)
    return out


def expand_cached_locals(fn: ast.FunctionDef) -> ast.FunctionDef:
    """Locals that only cache something for speed are read as what they cache:

      * `end = (b"SEND", b"")`  (bound once to a display of constants)                          -> the display at each use
      * `u32 = UINT32.pack`, `get_raw = module.get_raw`, `write = f.write`, `pack_n = Struct(fmt).pack`
        (bound once to an attribute of a name / of a Struct(...) construction, and used only as the callee of calls)  -> the
        attribute expression at each call.

    Conditions (each keeps the rewriting exact): the local is bound exactly once, is not a parameter or loop variable, every use
    comes after the binding in the same statement list or nested inside later statements of it, the names the cached expression
    mentions are parameters never re-bound or bound exactly once before the cache is taken (a loop variable: the cache is taken
    inside that loop), and the binding is not under a condition the uses are not under."""
    stores: Dict[str, int] = {}
    for n in ast.walk(fn):
        if isinstance(n, ast.Name) and isinstance(n.ctx, (ast.Store, ast.Del)):
            stores[n.id] = stores.get(n.id, 0) + 1
        if isinstance(n, (ast.Global, ast.Nonlocal)):
            for x in n.names:
                stores[x] = stores.get(x, 0) + 2
    params = {a.arg for a in fn.args.posonlyargs + fn.args.args + fn.args.kwonlyargs}
    if fn.args.vararg:
        params.add(fn.args.vararg.arg)
    if fn.args.kwarg:
        params.add(fn.args.kwarg.arg)
    loop_targets = {m.id for n in ast.walk(fn) if isinstance(n, (ast.For, ast.AsyncFor, ast.comprehension)) for m in ast.walk(n.target) if isinstance(m, ast.Name)}

    def is_const_display(v) -> bool:
        if isinstance(v, ast.Tuple) and v.elts:
            return all(isinstance(x, ast.Constant) or (isinstance(x, ast.UnaryOp) and isinstance(x.operand, ast.Constant)) for x in v.elts)
        return False

    def callee_chain(v):
        """root names of `a.b.c` / `Struct(<args>).pack`; None when not of that form"""
        if not isinstance(v, ast.Attribute):
            return None
        x = v
        while isinstance(x, ast.Attribute):
            x = x.value
        if isinstance(x, ast.Name):
            return {x.id}
        if isinstance(x, ast.Call) and isinstance(x.func, (ast.Name, ast.Attribute)) and norm(x.func).split(".")[-1] == "Struct" and not x.keywords \
                and v.attr in ("pack", "unpack", "unpack_from", "iter_unpack", "pack_into") and v.value is x:
            if any(isinstance(m, (ast.Call, ast.Lambda, ast.Yield, ast.Await, ast.NamedExpr)) for a in x.args for m in ast.walk(a)
                   if not (isinstance(m, ast.Call) and norm(m.func) == "len")):
                return None
            return {m.id for a in x.args for m in ast.walk(a) if isinstance(m, ast.Name) and m.id != "len"}
        return None

    lists = _stmt_lists(fn)
    subst: Dict[str, ast.expr] = {}
    drop: List[ast.stmt] = []
    for stmts, loops, cond in lists:
        for i, st in enumerate(stmts):
            if not (isinstance(st, ast.Assign) and len(st.targets) == 1 and isinstance(st.targets[0], ast.Name)):
                continue
            nm, v = st.targets[0].id, st.value
            if stores.get(nm) != 1 or nm in params or nm in loop_targets or nm in subst:
                continue
            kind = "const" if is_const_display(v) else None
            if kind is None and isinstance(v, ast.Name) and stores.get(v.id, 0) == 0 and v.id not in params and v.id[:1].isupper():
                kind = "const"          # `T = DisconnectingModule`: another name for a module-level class
            roots: Set[str] = set()
            if kind is None:
                r = callee_chain(v)
                if r is None:
                    continue
                kind, roots = "callee", r
            uses = [n for n in ast.walk(fn) if isinstance(n, ast.Name) and n.id == nm and isinstance(n.ctx, ast.Load)]
            if not uses:
                continue
            later = {id(x) for s2 in stmts[i + 1:] for x in ast.walk(s2)}
            if not all(id(u) in later for u in uses):
                continue
            if kind == "callee":
                callee_ids = {id(n.func) for n in ast.walk(fn) if isinstance(n, ast.Call)}
                if not all(id(u) in callee_ids for u in uses):
                    continue
                ok = True
                for r in roots:
                    if r in ("self", "cls") and stores.get(r, 0) == 0:
                        continue
                    if r in params and stores.get(r, 0) == 0:
                        continue
                    if stores.get(r, 0) == 0 and r not in params:
                        continue            # a module-level / builtin name
                    if stores.get(r, 0) != 1 or r in params:
                        ok = False
                        break
                    # bound once: the binding must come before the cache, and a loop that re-binds it must enclose the cache
                    binder_loops = [lp for lp in ast.walk(fn) if isinstance(lp, (ast.For, ast.AsyncFor))
                                    and any(isinstance(m, ast.Name) and m.id == r for m in ast.walk(lp.target))]
                    if binder_loops:
                        if not any(lp is x for lp in binder_loops for x in loops):
                            ok = False
                            break
                    else:
                        bpos = [pos(n) for n in ast.walk(fn) if isinstance(n, ast.Name) and n.id == r and isinstance(n.ctx, ast.Store)]
                        if not bpos or bpos[0] > pos(st):
                            ok = False
                            break
                        # bound inside a loop the cache is not in
                        for lp in ast.walk(fn):
                            if isinstance(lp, (ast.For, ast.AsyncFor, ast.While)) and any(isinstance(m, ast.Name) and m.id == r and isinstance(m.ctx, ast.Store)
                                                                                          for b in lp.body for m in ast.walk(b)) \
                                    and not any(lp is x for x in loops):
                                ok = False
                if not ok:
                    continue
            subst[nm] = v
            drop.append(st)
    if not subst:
        return fn
    new = copy.deepcopy(fn)
    texts = {norm(d) for d in drop}

    class X(ast.NodeTransformer):
        def visit_Assign(self, node):
            if len(node.targets) == 1 and isinstance(node.targets[0], ast.Name) and node.targets[0].id in subst and norm(node) in texts:
                return None
            return self.generic_visit(node)

        def visit_Name(self, node):
            if isinstance(node.ctx, ast.Load) and node.id in subst:
                return ast.copy_location(copy.deepcopy(subst[node.id]), node)
            return node
    for _ in range(3):          # a cache may be taken from another cache (`pack = codec.pack` after `codec = Struct(F)` is not: only names)
        new = X().visit(new)
    for n in ast.walk(new):
        for f_ in ("body", "orelse", "finalbody"):
            if isinstance(getattr(n, f_, None), list) and f_ == "body" and not n.body and not isinstance(n, ast.Module):
                n.body = [ast.Pass()]
    ast.fix_missing_locations(new)
    number(new)
    return new


def publish_fresh_locals(fn: ast.FunctionDef) -> ast.FunctionDef:
    """`x = Ctor(...)` directly followed by `self.A = x` (x bound once; `self.A` not assigned again later in the function, no call of a
    method of self after it that could re-assign it): the object is read as `self.A` from there on — `self.A = Ctor(...)`,
    `x.f = v` is `self.A.f = v`."""
    stores: Dict[str, int] = {}
    for n in ast.walk(fn):
        if isinstance(n, ast.Name) and isinstance(n.ctx, (ast.Store, ast.Del)):
            stores[n.id] = stores.get(n.id, 0) + 1
    params = {a.arg for a in fn.args.args + fn.args.kwonlyargs}
    todo = []
    for stmts, loops, cond in _stmt_lists(fn):
        for i in range(len(stmts) - 1):
            a, b = stmts[i], stmts[i + 1]
            if not (isinstance(a, ast.Assign) and len(a.targets) == 1 and isinstance(a.targets[0], ast.Name) and isinstance(a.value, ast.Call)
                    and isinstance(a.value.func, (ast.Name, ast.Attribute)) and norm(a.value.func).split(".")[-1][:1].isupper()):
                continue
            x = a.targets[0].id
            if stores.get(x) != 1 or x in params:
                continue
            if not (isinstance(b, ast.Assign) and len(b.targets) == 1 and isinstance(b.targets[0], ast.Attribute) and isinstance(b.targets[0].value, ast.Name)
                    and b.targets[0].value.id == "self" and isinstance(b.value, ast.Name) and b.value.id == x):
                continue
            chain = norm(b.targets[0])
            later = [s2 for s2 in stmts[i + 2:]]
            later_nodes = [n for s2 in later for n in ast.walk(s2)]
            if any(isinstance(n, ast.Attribute) and isinstance(n.ctx, (ast.Store, ast.Del)) and norm(n) == chain for n in later_nodes):
                continue
            if any(isinstance(n, ast.Call) and isinstance(n.func, ast.Attribute) and norm(n.func.value) == "self" for n in later_nodes):
                continue
            uses = [n for n in ast.walk(fn) if isinstance(n, ast.Name) and n.id == x and isinstance(n.ctx, ast.Load) and n is not b.value]
            ids = {id(n) for n in later_nodes}
            if not all(id(u) in ids for u in uses):
                continue
            if loops and any(isinstance(n, ast.Attribute) and isinstance(n.ctx, ast.Store) and norm(n) == chain and n is not b.targets[0] for n in ast.walk(fn)):
                continue
            todo.append((x, norm(a), norm(b), b.targets[0]))
    if not todo:
        return fn
    new = copy.deepcopy(fn)
    for x, ta, tb, chain_node in todo:
        class P(ast.NodeTransformer):
            def visit_Assign(self, node):
                if norm(node) == ta:
                    return None
                if norm(node) == tb:
                    src = next(n for n in ast.walk(fn) if isinstance(n, ast.Assign) and norm(n) == ta)
                    node.value = copy.deepcopy(src.value)
                    return node
                return self.generic_visit(node)

            def visit_Name(self, node):
                if node.id == x and isinstance(node.ctx, ast.Load):
                    return ast.copy_location(ast.Attribute(value=ast.Name(id="self", ctx=ast.Load()), attr=chain_node.attr, ctx=ast.Load()), node)
                return node
        new = P().visit(new)
    ast.fix_missing_locations(new)
    number(new)
    return new


def desugar_scan_loops(fn: ast.FunctionDef) -> ast.FunctionDef:
    """`for v in X: if T(v): <S>; break`  (no else, <S> does not read v, T has no call besides pure builtins)  is
    `if any(T(v) for v in X): <S>`: the loop only asks whether some element satisfies T."""
    changed = False

    class L(ast.NodeTransformer):
        def visit_For(self, node):
            nonlocal changed
            node = self.generic_visit(node)
            if node.orelse or len(node.body) != 1 or not isinstance(node.body[0], ast.If) or node.body[0].orelse:
                return node
            if not isinstance(node.target, ast.Name):
                return node
            iff = node.body[0]
            if not iff.body or not isinstance(iff.body[-1], ast.Break):
                return node
            rest = iff.body[:-1]
            v = node.target.id
            if rest and all(isinstance(s_, ast.Assign) and isinstance(s_.value, ast.Constant) and isinstance(s_.value.value, bool) for s_ in rest):
                return node             # a flag loop (`found = True; break`): fold_flag_loops reads it, with the flag's initial value
            if any(isinstance(m, ast.Name) and m.id == v for s in rest for m in ast.walk(s)):
                return node
            if any(isinstance(m, (ast.Break, ast.Continue)) for s in rest for m in ast.walk(s)):
                return node
            if any(isinstance(m, ast.Call) and norm(m.func) not in ("len", "isinstance", "abs", "int") for m in ast.walk(iff.test)):
                return node
            if any(isinstance(m, (ast.NamedExpr, ast.Yield, ast.Await)) for m in ast.walk(iff.test)):
                return node
            changed = True
            gen = ast.GeneratorExp(elt=iff.test, generators=[ast.comprehension(target=ast.Name(id=v, ctx=ast.Store()), iter=node.iter, ifs=[], is_async=0)])
            test = ast.Call(func=ast.Name(id="any", ctx=ast.Load()), args=[gen], keywords=[])
            return ast.copy_location(ast.If(test=test, body=rest or [ast.Pass()], orelse=[]), node)
    new = L().visit(copy.deepcopy(fn))
    if not changed:
        return fn
    ast.fix_missing_locations(new)
    number(new)
    return new


def specialize(fn: ast.FunctionDef, bindings: Dict[str, Any]) -> ast.FunctionDef:
    """The function with some parameters fixed to constants (`loading=True`), partially evaluated: a flow-sensitive constant
    environment over the locals (None / bool / int / str constants only) is carried through the statements in order; a test that
    is decided in that environment selects its branch (`and` / `or` / `not` / `is` / comparisons / conditional expressions are
    decided with short-circuiting: `not loading and X` is False whatever X is — tests are taken to be free of side effects);
    an assignment of a decided value updates the environment, any other assignment (and every name bound in a loop, a with, a try
    or an undecided branch) removes the name from it.  Code that cannot run under the bindings is dropped; the rest is unchanged.
    Sound as a description of the calls with those arguments, since only unreachable code is removed."""
    new = copy.deepcopy(fn)
    UNK = object()

    def ev(e: ast.expr, env: Dict[str, Any]):
        if isinstance(e, ast.Constant) and (e.value is None or isinstance(e.value, (bool, int, str))):
            return e.value
        if isinstance(e, ast.Name):
            v0 = env.get(e.id, UNK)
            return UNK if isinstance(v0, tuple) else v0          # a symbolic length is a value only for the reflexive comparisons below
        if isinstance(e, ast.UnaryOp) and isinstance(e.op, ast.Not):
            v = ev(e.operand, env)
            return UNK if v is UNK else (not v)
        if isinstance(e, ast.BoolOp):
            vals = [ev(v, env) for v in e.values]
            if isinstance(e.op, ast.And):
                for v in vals:
                    if v is UNK:
                        break
                    if not v:
                        return v
                else:
                    return vals[-1]
                # an operand known false anywhere makes the conjunction false (operands are pure)
                if any(v is not UNK and not v for v in vals):
                    return False
                return UNK
            for v in vals:
                if v is UNK:
                    break
                if v:
                    return v
            else:
                return vals[-1]
            if any(v is not UNK and v for v in vals):
                return True
            return UNK
        if isinstance(e, ast.IfExp):
            t = ev(e.test, env)
            if t is UNK:
                a, b = ev(e.body, env), ev(e.orelse, env)
                return a if (a is not UNK and b is not UNK and type(a) is type(b) and a == b) else UNK
            return ev(e.body if t else e.orelse, env)
        if isinstance(e, ast.Compare) and len(e.ops) == 1:
            # x = len(L) … `x < len(L)` with nothing that could change L in between: the two sides are the same quantity
            def symtext(x):
                if isinstance(x, ast.Name) and isinstance(env.get(x.id), tuple) and env[x.id][0] == "sym":
                    return env[x.id][1]
                if isinstance(x, ast.Call) and norm(x.func) == "len" and len(x.args) == 1:
                    return norm(x)
                return None
            ta, tb = symtext(e.left), symtext(e.comparators[0])
            if ta is not None and ta == tb:
                op0 = e.ops[0]
                if isinstance(op0, (ast.Eq, ast.LtE, ast.GtE)):
                    return True
                if isinstance(op0, (ast.NotEq, ast.Lt, ast.Gt)):
                    return False
            a, b = ev(e.left, env), ev(e.comparators[0], env)
            if isinstance(a, tuple) or isinstance(b, tuple):
                return UNK
            if a is UNK or b is UNK:
                return UNK
            op = e.ops[0]
            try:
                if isinstance(op, ast.Is):
                    return a is b if (a is None or b is None or isinstance(a, bool) or isinstance(b, bool)) else UNK
                if isinstance(op, ast.IsNot):
                    return a is not b if (a is None or b is None or isinstance(a, bool) or isinstance(b, bool)) else UNK
                if isinstance(op, ast.Eq):
                    return a == b
                if isinstance(op, ast.NotEq):
                    return a != b
                if isinstance(op, ast.Lt):
                    return a < b
                if isinstance(op, ast.LtE):
                    return a <= b
                if isinstance(op, ast.Gt):
                    return a > b
                if isinstance(op, ast.GtE):
                    return a >= b
            except TypeError:
                return UNK
        return UNK

    def stored(stmts) -> Set[str]:
        return {n.id for st in stmts for n in ast.walk(st) if isinstance(n, ast.Name) and isinstance(n.ctx, (ast.Store, ast.Del))}

    def terminates(stmts) -> bool:
        return _always_returns(stmts) or any(isinstance(st, (ast.Continue, ast.Break)) for st in stmts[-1:])

    def block(stmts: List[ast.stmt], env: Dict[str, Any]) -> List[ast.stmt]:
        out: List[ast.stmt] = []
        for st in stmts:
            if isinstance(st, ast.If):
                t = ev(st.test, env)
                if t is not UNK:
                    out.extend(block(st.body if t else st.orelse, env))
                    if out and terminates(out):
                        break
                    continue
                ea, eb = dict(env), dict(env)
                st.body = block(st.body, ea) or [ast.Pass()]
                st.orelse = block(st.orelse, eb)
                a_ends, b_ends = terminates(st.body), bool(st.orelse) and terminates(st.orelse)
                env.clear()
                if a_ends and not b_ends:
                    env.update(eb)
                elif b_ends and not a_ends:
                    env.update(ea)
                else:
                    env.update({k: v for k, v in ea.items() if k in eb and type(eb[k]) is type(v) and eb[k] == v})
                out.append(st)
                continue
            if isinstance(st, ast.Assign) and len(st.targets) == 1 and isinstance(st.targets[0], ast.Name) and isinstance(st.value, ast.Call) \
                    and norm(st.value.func) == "len" and len(st.value.args) == 1 and isinstance(st.value.args[0], (ast.Name, ast.Attribute)):
                env[st.targets[0].id] = ("sym", norm(st.value))          # a length read into a local (forgotten at the next statement with an effect)
                out.append(st)
                continue
            if isinstance(st, ast.Assign) and len(st.targets) == 1 and isinstance(st.targets[0], ast.Name):
                v = ev(st.value, env)
                # conditional expressions decided under the environment are written out
                if isinstance(st.value, ast.IfExp):
                    t = ev(st.value.test, env)
                    if t is not UNK:
                        st.value = st.value.body if t else st.value.orelse
                if v is UNK:
                    env.pop(st.targets[0].id, None)
                else:
                    env[st.targets[0].id] = v
                out.append(st)
                continue
            if isinstance(st, (ast.For, ast.While, ast.With, ast.Try, ast.Match, ast.FunctionDef, ast.ClassDef, ast.AsyncFor, ast.AsyncWith)):
                for k in stored([st]):
                    env.pop(k, None)
                # bodies are specialised under what is still known (names bound inside were dropped first)
                inner = dict(env)
                for fld in ("body", "orelse", "finalbody"):
                    sub = getattr(st, fld, None)
                    if isinstance(sub, list) and sub and isinstance(sub[0], ast.stmt) and not isinstance(st, (ast.FunctionDef, ast.ClassDef, ast.Match)):
                        setattr(st, fld, block(sub, dict(inner)) or ([ast.Pass()] if fld == "body" else []))
                if isinstance(st, ast.Try):
                    for h in st.handlers:
                        h.body = block(h.body, dict(inner)) or [ast.Pass()]
                out.append(st)
                continue
            for k in stored([st]):
                env.pop(k, None)
            # any statement that may have an effect on an object (a call statement, a store through an attribute / subscript) ends what
            # is known about lengths
            if isinstance(st, (ast.Expr, ast.AugAssign, ast.Delete)) or (isinstance(st, ast.Assign) and any(not isinstance(t, ast.Name) for t in st.targets)) \
                    or (isinstance(st, ast.Assign) and any(isinstance(x, ast.Call) for x in ast.walk(st.value))):
                for k in [k for k, v in env.items() if isinstance(v, tuple) and v and v[0] == "sym"]:
                    env.pop(k, None)
            out.append(st)
            if isinstance(st, (ast.Return, ast.Raise, ast.Continue, ast.Break)):
                break
        return out
    new.body = block(new.body, dict(bindings)) or [ast.Pass()]
    ast.fix_missing_locations(new)
    number(new)
    return new


# ------------------------------------------------------------------------------------ attribution of private helpers
def _all_functions(tree: ast.AST):
    def rec(node, prefix):
        for ch in ast.iter_child_nodes(node):
            if isinstance(ch, (ast.FunctionDef, ast.AsyncFunctionDef)):
                yield f"{prefix}{ch.name}", ch
                yield from rec(ch, f"{prefix}{ch.name}.")
            elif isinstance(ch, ast.ClassDef):
                yield from rec(ch, f"{prefix}{ch.name}.")
            else:
                yield from rec(ch, prefix)
    yield from rec(tree, "")


_MENTIONS: Dict[int, Dict[str, Set[Tuple[str, str]]]] = {}


def mentions(repo: Repo) -> Dict[str, Set[Tuple[str, str]]]:
    """identifier -> {(file, qualified function or '<module>')} in which it is mentioned (loaded as a name or attribute)."""
    key = id(repo)
    if key in _MENTIONS:
        return _MENTIONS[key]
    out: Dict[str, Set[Tuple[str, str]]] = {}
    for rel, sf in repo.files.items():
        if not sf.modname.startswith(("rv", "genrv")):
            continue
        fns = list(_all_functions(sf.tree))
        seen = set()
        for qn, fn in fns:
            for n in ast.walk(fn):
                if any(n is d for d in ()):      # pragma: no cover
                    continue
                nm = None
                if isinstance(n, ast.Name) and isinstance(n.ctx, ast.Load):
                    nm = n.id
                elif isinstance(n, ast.Attribute) and isinstance(n.ctx, ast.Load):
                    nm = n.attr
                if nm is not None and nm.startswith("_") and not nm.startswith("__"):
                    # attribute the mention to the innermost function: nested defs are walked again on their own, so keep the deepest
                    out.setdefault(nm, set()).add((rel, qn))
            seen.add(id(fn))
        for st in sf.tree.body:
            if not isinstance(st, (ast.FunctionDef, ast.ClassDef, ast.AsyncFunctionDef)):
                for n in ast.walk(st):
                    nm = n.id if isinstance(n, ast.Name) else (n.attr if isinstance(n, ast.Attribute) else None)
                    if nm is not None and nm.startswith("_") and not nm.startswith("__"):
                        out.setdefault(nm, set()).add((rel, "<module>"))
    _MENTIONS[key] = out
    return out


def attributed_to(repo: Repo, rel: str, qualname: str, depth: int = 0) -> Tuple[str, str]:
    """The function a *private* helper's effects are accounted to: if every mention of the helper's name lies in one other
    function of the same file (followed through further private helpers), that function; otherwise the helper itself."""
    name = qualname.rsplit(".", 1)[-1]
    if not (name.startswith("_") and not name.startswith("__")) or depth > 4:
        return rel, qualname
    prefix = qualname.rsplit(".", 1)[0] + "." if "." in qualname else ""
    users = {(r, q) for r, q in mentions(repo).get(name, set()) if not (r == rel and (q == qualname or q.startswith(qualname + ".")))}
    # a nested function mention also counts for its enclosing functions: keep only same-class/module users
    users = {(r, q) for r, q in users}
    tops = set()
    for r, q in users:
        if r != rel:
            return rel, qualname
        # enclosing chain: Outer.f.inner mentions count as Outer.f
        parts = q.split(".")
        cand = q
        tops.add(cand)
    # drop users that are nested inside another user
    tops = {q for q in tops if not any(q != o and q.startswith(o + ".") for o in tops)}
    if len(tops) != 1:
        return rel, qualname
    (only,) = tops
    if not only.startswith(prefix) and prefix:
        return rel, qualname
    return attributed_to(repo, rel, only, depth + 1)
