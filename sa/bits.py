"""Per-bit abstract domain for packed-word expressions.

A value is a vector of W lanes; a lane is 0, 1, ("s", term, i) = bit i of an opaque term, or
("T", frozenset(deps)) = unknown function of the named terms.  Python ints are infinite two's
complement, so constants are kept as ints and sampled per lane.
"""

from __future__ import annotations

import ast
from typing import Any, Dict, FrozenSet, List, Optional, Tuple, Union

from .model import ClassInfo, NotConst, Repo, attr_chain, norm

W = 48
Lane = Any


def S(term: str, i: int) -> Lane:
    return ("s", term, i)


def N(term: str, i: int) -> Lane:
    """NOT bit i of `term` (only produced by `not x`; every other operator treats it as an unknown function)."""
    return ("n", term, i)


def T(*deps) -> Lane:
    d = set()
    for x in deps:
        if isinstance(x, (set, frozenset)):
            d |= x
        elif isinstance(x, tuple) and x and x[0] in ("s", "n"):
            d.add(x[1])
        elif isinstance(x, tuple) and x and x[0] == "T":
            d |= x[1]
    return ("T", frozenset(d))


def is_top(l: Lane) -> bool:
    return isinstance(l, tuple) and l[0] == "T"


def deps(l: Lane) -> FrozenSet[str]:
    if isinstance(l, tuple):
        if l[0] in ("s", "n"):
            return frozenset([l[1]])
        return l[1]
    return frozenset()


class BV:
    __slots__ = ("lanes",)

    def __init__(self, lanes: List[Lane]):
        assert len(lanes) == W
        self.lanes = lanes

    @staticmethod
    def const(c: int) -> "BV":
        return BV([(c >> i) & 1 for i in range(W)])

    @staticmethod
    def term(name: str, width: Optional[int] = None, lo: int = 0) -> "BV":
        """Opaque term; `width` known ⇒ upper lanes are 0 (non-negative value < 2**width)."""
        lanes = []
        for i in range(W):
            if width is not None and i >= width:
                lanes.append(0)
            else:
                lanes.append(S(name, i))
        return BV(lanes)

    @staticmethod
    def masked_term(name: str, mask: int) -> "BV":
        return BV([S(name, i) if (mask >> i) & 1 else 0 for i in range(W)])

    def is_const(self) -> bool:
        return all(l in (0, 1) for l in self.lanes)

    def const_value(self) -> int:
        return sum((1 << i) for i, l in enumerate(self.lanes) if l == 1)

    def deps(self) -> FrozenSet[str]:
        d = frozenset()
        for l in self.lanes:
            d |= deps(l)
        return d

    def nonzero_lanes(self) -> List[int]:
        return [i for i, l in enumerate(self.lanes) if l != 0]

    def show(self, n: int = 34) -> List[str]:
        out = []
        for l in self.lanes[:n]:
            if l in (0, 1):
                out.append(str(l))
            elif l[0] == "s":
                out.append(f"{l[1]}[{l[2]}]")
            elif l[0] == "n":
                out.append(f"¬{l[1]}[{l[2]}]")
            else:
                out.append("T{" + ",".join(sorted(l[1])) + "}")
        while out and out[-1] == "0":
            out.pop()
        return out

    def __eq__(self, other):
        return isinstance(other, BV) and self.lanes == other.lanes

    def truncate(self, bits: int) -> "BV":
        return BV([l if i < bits else 0 for i, l in enumerate(self.lanes)])


def _and(a: Lane, b: Lane) -> Lane:
    if a == 0 or b == 0:
        return 0
    if a == 1:
        return b
    if b == 1:
        return a
    if a == b and not is_top(a):
        return a
    return T(a, b)


def _or(a: Lane, b: Lane) -> Lane:
    if a == 1 or b == 1:
        return 1
    if a == 0:
        return b
    if b == 0:
        return a
    if a == b and not is_top(a):
        return a
    return T(a, b)


def _xor(a: Lane, b: Lane) -> Lane:
    if a == 0:
        return b
    if b == 0:
        return a
    if a == b and not is_top(a):
        return 0
    if a == 1 and b == 1:
        return 0
    return T(a, b)


def _not(a: Lane) -> Lane:
    if a in (0, 1):
        return 1 - a
    return T(a)


def bv_and(a: BV, b: BV) -> BV:
    return BV([_and(x, y) for x, y in zip(a.lanes, b.lanes)])


def bv_or(a: BV, b: BV) -> BV:
    return BV([_or(x, y) for x, y in zip(a.lanes, b.lanes)])


def bv_xor(a: BV, b: BV) -> BV:
    return BV([_xor(x, y) for x, y in zip(a.lanes, b.lanes)])


def bv_not(a: BV) -> BV:
    return BV([_not(x) for x in a.lanes])


def bv_shl(a: BV, n: int) -> BV:
    if n < 0:
        return bv_shr(a, -n)
    return BV(([0] * n + a.lanes)[:W])


def bv_shr(a: BV, n: int) -> BV:
    """Right shift; lanes shifted in from beyond W are unknown unless the top lane is 0/1 constant."""
    top = a.lanes[-1]
    fill = top if top in (0, 1) else T(top)
    return BV((a.lanes[n:] + [fill] * n)[:W])


CARRY = "?carry"         # pseudo-dependency of a lane whose value was lost to an unknown carry / borrow ("unknown", not "mixed")


def is_unknown(l) -> bool:
    return isinstance(l, tuple) and l[0] == "T" and CARRY in l[1]


IMPRECISE = [0]          # bumped whenever an addition / subtraction had to give up on carries (result lanes are "unknown", not "mixed")


def bv_add(a: BV, b: BV) -> BV:
    out = []
    carry_unknown = False
    alldeps = a.deps() | b.deps()
    lost = ("T", frozenset(alldeps | {CARRY}))
    for x, y in zip(a.lanes, b.lanes):
        if carry_unknown:
            out.append(lost)
            continue
        if x == 0:
            out.append(y)
        elif y == 0:
            out.append(x)
        else:
            carry_unknown = True
            IMPRECISE[0] += 1
            # no carry has come in yet: this lane is exactly x xor y; every lane above it is unknown (marked with CARRY)
            exact = _xor(x, y)
            out.append(exact if not (is_top(x) or is_top(y)) else ("T", frozenset(deps(x) | deps(y) | {CARRY})))
    return BV(out)


def bv_sub(a: BV, b: BV) -> BV:
    out = []
    borrow_unknown = False
    alldeps = a.deps() | b.deps()
    lost = ("T", frozenset(alldeps | {CARRY}))
    for x, y in zip(a.lanes, b.lanes):
        if borrow_unknown:
            out.append(lost)
            continue
        if y == 0:
            out.append(x)
        elif y == x and not is_top(x):
            out.append(0)
        else:
            borrow_unknown = True
            IMPRECISE[0] += 1
            exact = _xor(x, y)          # no borrow yet: the difference bit is x xor y
            out.append(exact if not (is_top(x) or is_top(y)) else ("T", frozenset(deps(x) | deps(y) | {CARRY})))
    return BV(out)


class Unsupported(Exception):
    pass


class BitEval:
    """Evaluates expressions / straight-line setter bodies in the bit domain."""

    def __init__(self, repo: Repo, ci: Optional[ClassInfo], env: Dict[str, BV]):
        self.repo = repo
        self.ci = ci
        self.env = dict(env)
        self.fresh = 0
        self.notes: List[str] = []
        self.alias: Dict[str, ast.expr] = {}      # local name -> attribute chain it abbreviates (`flags = Base.Flags`)

    # -------------------------------------------------------------- expressions
    def ev(self, e: ast.expr, depth: int = 0) -> BV:
        if depth > 30:
            raise Unsupported("too deep")
        if self.alias and isinstance(e, (ast.Attribute, ast.Subscript)):
            root = e
            while isinstance(root, (ast.Attribute, ast.Subscript)):
                root = root.value
            if isinstance(root, ast.Name) and root.id in self.alias:
                import copy
                e = copy.deepcopy(e)
                par = e
                while isinstance(par.value, (ast.Attribute, ast.Subscript)):
                    par = par.value
                par.value = copy.deepcopy(self.alias[root.id])
                ast.fix_missing_locations(e)
        try:
            c = self.repo.fold(e, ci=self.ci)
            if isinstance(c, bool):
                c = int(c)
            if isinstance(c, int):
                return BV.const(c)
        except NotConst:
            pass
        key = self._key(e)
        if key is not None and key in self.env:
            return self.env[key]
        if isinstance(e, ast.BinOp):
            if isinstance(e.op, (ast.LShift, ast.RShift)):
                a = self.ev(e.left, depth + 1)
                try:
                    n = self.repo.fold(e.right, ci=self.ci)
                except NotConst:
                    nb = self.ev(e.right, depth + 1)
                    if not nb.is_const():
                        return BV([T(a.deps() | nb.deps())] * W)
                    n = nb.const_value()
                return bv_shl(a, n) if isinstance(e.op, ast.LShift) else bv_shr(a, n)
            a, b = self.ev(e.left, depth + 1), self.ev(e.right, depth + 1)
            if isinstance(e.op, ast.BitAnd):
                return bv_and(a, b)
            if isinstance(e.op, ast.BitOr):
                return bv_or(a, b)
            if isinstance(e.op, ast.BitXor):
                return bv_xor(a, b)
            if isinstance(e.op, ast.Add):
                return bv_add(a, b)
            if isinstance(e.op, ast.Sub):
                return bv_sub(a, b)
            if isinstance(e.op, ast.Mult):
                for x, y in ((a, b), (b, a)):
                    if y.is_const():
                        c = y.const_value()
                        if c == 0:
                            return BV.const(0)
                        if c & (c - 1) == 0:
                            return bv_shl(x, c.bit_length() - 1)
                return BV([T(a.deps() | b.deps())] * W)
            if isinstance(e.op, ast.FloorDiv) and b.is_const():
                c = b.const_value()
                if c and c & (c - 1) == 0:
                    return bv_shr(a, c.bit_length() - 1)
            if isinstance(e.op, ast.Mod) and b.is_const():
                c = b.const_value()
                if c and c & (c - 1) == 0:
                    return bv_and(a, BV.const(c - 1))
            return BV([T(a.deps() | b.deps())] * W)
        if isinstance(e, ast.UnaryOp):
            a = self.ev(e.operand, depth + 1)
            if isinstance(e.op, ast.Invert):
                return bv_not(a)
            if isinstance(e.op, ast.Not):
                return self._bool(a, negate=True)
            return BV([T(a.deps())] * W)
        if isinstance(e, ast.BoolOp) and isinstance(e.op, ast.Or) and len(e.values) == 2:
            # `x or c`: value x unless x == 0
            a = self.ev(e.values[0], depth + 1)
            return BV([T(a.deps())] * W)
        if isinstance(e, ast.Compare) and len(e.ops) == 1 and isinstance(e.ops[0], (ast.NotEq, ast.Eq, ast.Gt)):
            # x != 0 / x > 0 (non-negative words) is bool(x); x == 0 is not bool(x)
            l, r = e.left, e.comparators[0]
            try:
                rc = self.repo.fold(r, ci=self.ci)
            except NotConst:
                rc = None
            if rc == 0 and not isinstance(rc, bool):
                a = self.ev(l, depth + 1)
                return self._bool(a, negate=isinstance(e.ops[0], ast.Eq))
            if rc == 1 and not isinstance(rc, bool) and isinstance(e.ops[0], (ast.Eq, ast.NotEq)):
                a = self.ev(l, depth + 1)
                if all(x == 0 for x in a.lanes[1:]):          # a one-bit value: a == 1 is the bit itself
                    return self._bool(a, negate=isinstance(e.ops[0], ast.NotEq))
        if isinstance(e, ast.IfExp):
            t = self.ev(e.test, depth + 1)
            if t.is_const():
                return self.ev(e.body if t.const_value() else e.orelse, depth + 1)
            a, b = self.ev(e.body, depth + 1), self.ev(e.orelse, depth + 1)
            tb = self._bool(t)
            if a.is_const() and b.is_const() and b.const_value() == 0:
                c = a.const_value()
                if c and c & (c - 1) == 0 and tb.lanes[0] not in (0, 1) and not is_top(tb.lanes[0]):
                    return bv_shl(tb, c.bit_length() - 1)
            return BV([T(t.deps() | a.deps() | b.deps())] * W)
        if isinstance(e, ast.Call):
            return self._call(e, depth)
        if isinstance(e, ast.Attribute):
            # property getter inlining on self
            if isinstance(e.value, ast.Name) and e.value.id == "self" and self.ci is not None:
                r = self.repo.lookup(self.ci, e.attr)
                if r and r[1] == "property" and r[2][0] is not None:
                    ret = self._flat_ret(r[2][0], r[0] if hasattr(r[0], "methods") else self.ci)
                    if ret is not None:
                        return self.ev(ret, depth + 1)
            if e.attr == "value":
                return self.ev(e.value, depth + 1)
        if isinstance(e, ast.Subscript) and isinstance(e.value, (ast.Name, ast.Attribute)) and not isinstance(e.slice, ast.Slice):
            # TABLE[key] with TABLE a class / module constant written as a dict display
            try:
                from . import inline as _inl
                d_ = _inl.definition_of(self.repo, self.ci, self.ci.file if self.ci is not None else None, e.value)
            except Exception:
                d_ = None
            if isinstance(d_, ast.Dict):
                e = ast.copy_location(ast.Subscript(value=d_, slice=e.slice, ctx=ast.Load()), e)
        if isinstance(e, ast.Subscript) and isinstance(e.value, ast.Dict):
            vals = []
            for v in e.value.values:
                try:
                    vals.append(int(self.repo.fold(v, ci=self.ci)))
                except (NotConst, TypeError, ValueError):
                    raise Unsupported("dict values")
            mask = 0
            for v in vals:
                mask |= v
            idx = self.ev(e.slice, depth + 1)
            name = "map(" + ",".join(sorted(idx.deps())) + ")"
            return BV.masked_term(name, mask)
        if isinstance(e, ast.Compare):
            ds = frozenset()
            for sub in [e.left] + list(e.comparators):
                ds |= self.ev(sub, depth + 1).deps()
            return BV([T(ds)] + [0] * (W - 1))
        if key is not None:
            # unknown opaque name: fresh unbounded term
            bv = BV.term(key)
            self.env[key] = bv
            return bv
        raise Unsupported(norm(e))

    def _bool(self, a: BV, negate: bool = False) -> BV:
        nz = a.nonzero_lanes()
        if not negate and len(nz) == 1 and not is_top(a.lanes[nz[0]]) and a.lanes[nz[0]] != 1:
            return BV([a.lanes[nz[0]]] + [0] * (W - 1))
        if negate and len(nz) == 1 and not is_top(a.lanes[nz[0]]) and a.lanes[nz[0]] != 1:
            l = a.lanes[nz[0]]
            return BV([(N if l[0] == "s" else S)(l[1], l[2])] + [0] * (W - 1))
        if a.is_const():
            v = int(bool(a.const_value()))
            return BV.const(1 - v if negate else v)
        return BV([T(a.deps())] + [0] * (W - 1))

    def _call(self, e: ast.Call, depth: int) -> BV:
        fname = norm(e.func)
        short = fname.split(".")[-1]
        if isinstance(e.func, ast.Attribute) and e.func.attr == "get" and e.args:
            try:
                nm = self.repo.fold(e.args[0], ci=self.ci)
            except NotConst:
                nm = None
            if isinstance(nm, str):
                k = f"{norm(e.func.value)}[{nm!r}]"
                if k not in self.env:
                    self.env[k] = BV.term(nm)
                return self.env[k]
        if fname in ("int", "IntEnum") and len(e.args) == 1:
            return self.ev(e.args[0], depth + 1)
        if fname == "bool" and len(e.args) == 1:
            return self._bool(self.ev(e.args[0], depth + 1))
        if fname in ("max", "min") and len(e.args) == 2:
            cl = self._clamp(e)
            if cl is not None:
                return cl
            a, b = self.ev(e.args[0], depth + 1), self.ev(e.args[1], depth + 1)
            return BV([T(a.deps() | b.deps())] * W)
        # self._helper() -> its single return expression (no arguments)
        if isinstance(e.func, ast.Attribute) and isinstance(e.func.value, ast.Name) and e.func.value.id == "self" and self.ci is not None \
                and not e.args and not e.keywords:
            r = self.repo.lookup(self.ci, e.func.attr)
            if r and r[1] == "method":
                ret = self._flat_ret(r[2], r[0] if hasattr(r[0], "methods") else self.ci)
                if ret is not None:
                    return self.ev(ret, depth + 1)
        # Enum(x) -> identity on bits
        owner = self.repo.class_of_expr(e.func, self.ci, self.ci.file if self.ci else None)
        if owner is not None and self.repo.is_enum(owner) and len(e.args) == 1:
            return self.ev(e.args[0], depth + 1)
        raise Unsupported(norm(e))

    def _flat_ret(self, fn: ast.FunctionDef, owner) -> Optional[ast.expr]:
        """The single expression a getter / argument-less helper returns, private helpers it calls read through."""
        ret = _ret_expr(fn)
        try:
            from . import inline
            flat = inline.normalize(self.repo, owner, fn)
            r2 = inline.as_expression(flat)
            if r2 is not None:
                return r2
        except Exception:
            pass
        return ret

    def _clamp(self, e: ast.Call) -> Optional[BV]:
        """max(lo, min(v, hi)) / min(hi, max(v, lo)) with constant 0 <= lo <= hi."""
        def split(call, outer):
            consts, others = [], []
            for a in call.args:
                try:
                    consts.append(int(self.repo.fold(a, ci=self.ci)))
                except (NotConst, TypeError, ValueError):
                    others.append(a)
            return consts, others
        outer = norm(e.func)
        consts, others = split(e, outer)
        if len(consts) != 1 or len(others) != 1:
            return None
        inner = others[0]
        if not (isinstance(inner, ast.Call) and norm(inner.func) in ("max", "min") and norm(inner.func) != outer
                and len(inner.args) == 2):
            return None
        c2, o2 = split(inner, norm(inner.func))
        if len(c2) != 1 or len(o2) != 1:
            return None
        lo, hi = (consts[0], c2[0]) if outer == "max" else (c2[0], consts[0])
        if lo < 0 or hi < lo:
            return None
        v = self.ev(o2[0])
        name = f"clamp({','.join(sorted(v.deps())) or norm(o2[0])},{lo},{hi})"
        self.notes.append(name)
        return BV.term(name, width=max(1, hi.bit_length()))

    def _key(self, e: ast.expr) -> Optional[str]:
        ch = attr_chain(e)
        if ch is not None:
            return ".".join(ch)
        if isinstance(e, ast.Subscript) and not isinstance(e.slice, ast.Slice):
            base = self._key(e.value)
            if base is not None:
                try:
                    idx = self.repo.fold(e.slice, ci=self.ci)
                except NotConst:
                    return None
                return f"{base}[{idx!r}]"
        return None

    # --------------------------------------------------------------- statements
    def run(self, stmts: List[ast.stmt]):
        """Straight-line assignments only; returns the value of a `return`, if any."""
        for st in stmts:
            if isinstance(st, ast.Expr) and isinstance(st.value, ast.Constant):
                continue
            if isinstance(st, ast.Pass):
                continue
            if isinstance(st, ast.Assign) and len(st.targets) == 1:
                self._assign(st.targets[0], st.value)
            elif isinstance(st, ast.AugAssign):
                cur = ast.BinOp(left=_as_load(st.target), op=st.op, right=st.value)
                ast.copy_location(cur, st)
                ast.fix_missing_locations(cur)
                self._assign(st.target, cur)
            elif isinstance(st, ast.Return):
                return self.ev(st.value) if st.value is not None else None
            elif isinstance(st, ast.If):
                self._if(st)
            else:
                raise Unsupported(f"statement {type(st).__name__}: {norm(st)[:60]}")
        return None

    def _if(self, st: ast.If):
        """Branches without `return`: every variable becomes the lane-wise mux of the two branch values."""
        c = self._bool(self.ev(st.test)).lanes[0]
        if c in (0, 1):
            if self.run(st.body if c else st.orelse) is not None:
                raise Unsupported("return inside a conditional")
            return
        base = dict(self.env)
        if self.run(st.body) is not None:
            raise Unsupported("return inside a conditional")
        e1 = self.env
        self.env = dict(base)
        if self.run(st.orelse) is not None:
            raise Unsupported("return inside a conditional")
        e2 = self.env
        out = {}
        for k in set(e1) | set(e2):
            a = e1.get(k) or BV.term(k)
            b = e2.get(k) or BV.term(k)
            lanes = []
            for x, y in zip(a.lanes, b.lanes):
                if x == y:
                    lanes.append(x)
                elif y == 0:
                    lanes.append(_and(c, x))
                else:
                    lanes.append(T(c, x, y))
            out[k] = BV(lanes)
        self.env = out

    def _assign(self, target: ast.expr, value: ast.expr):
        if isinstance(target, ast.Tuple) and len(target.elts) == 1:
            target = target.elts[0]
        key = self._key(target)
        if key is None:
            raise Unsupported(f"assignment target {norm(target)}")
        if isinstance(target, ast.Name) and attr_chain(value) is not None and attr_chain(value)[0] != "self" \
                and self._key(value) not in self.env:
            try:
                self.repo.fold(value, ci=self.ci)
            except NotConst:
                # a class / module reference (`flags = BaseSampler.EnvelopeFlags`): abbreviation, not a value
                self.alias[target.id] = value
                return
        self.env[key] = self.ev(value)


def _as_load(t: ast.expr) -> ast.expr:
    import copy
    n = copy.deepcopy(t)
    for sub in ast.walk(n):
        if hasattr(sub, "ctx"):
            sub.ctx = ast.Load()
    return n


def _ret_expr(fn: ast.FunctionDef) -> Optional[ast.expr]:
    body = [s for s in fn.body if not (isinstance(s, ast.Expr) and isinstance(s.value, ast.Constant))]
    if len(body) == 1 and isinstance(body[0], ast.Return):
        return body[0].value
    return None


def low_bits_of_single_term(bv: BV) -> Optional[Tuple[str, int]]:
    """If bv == [t[0], t[1], ..., t[k-1], 0, 0, ...] for one term t and k>=1: (t, k)."""
    term = None
    k = 0
    for i, l in enumerate(bv.lanes):
        if l == 0:
            break
        if not (isinstance(l, tuple) and l[0] == "s" and l[2] == i):
            return None
        if term is None:
            term = l[1]
        elif l[1] != term:
            return None
        k = i + 1
    if term is None:
        return None
    if any(l != 0 for l in bv.lanes[k:]):
        return None
    return term, k
