"""Verdict policy, known-findings matching, evidence and replay files."""

from __future__ import annotations

import json
import os
import time
from dataclasses import dataclass, field, asdict
from pathlib import Path
from typing import Any, Dict, List, Optional

VERIF = Path(__file__).resolve().parent.parent
EVIDENCE_DIR = Path(os.environ.get("RV_VERIF_EVIDENCE_DIR") or VERIF / "evidence")
REPLAY_DIR = (Path(os.environ["RV_VERIF_EVIDENCE_DIR"]) / "replay") if os.environ.get("RV_VERIF_EVIDENCE_DIR") \
    else VERIF / "out" / "replay"
KNOWN_FILE = Path(os.environ.get("RV_VERIF_KNOWN") or VERIF / "known_findings.json")

OK, VIOLATION, INCONCLUSIVE, ERROR, INFO = "ok", "violation", "inconclusive", "analysis-error", "info"


@dataclass
class Finding:
    rule: str            # e.g. "C01.R5"
    status: str          # ok | violation | inconclusive | analysis-error | info
    construct: str       # qualified construct, e.g. rv/modules/module.py:Module.iff_chunks
    text: str = ""       # normalised statement / expression text
    detail: str = ""     # human explanation
    where: str = ""      # file:line (informational only, never part of the key)
    nontrivial: bool = True

    def key(self, prop: str):
        return (prop, self.rule, self.construct, " ".join(self.text.split()))


class Report:
    def __init__(self, prop: str, tier: str, level: str, explanation: str):
        self.prop = prop
        self.tier = tier
        self.level = level
        self.explanation = explanation
        self.findings: List[Finding] = []
        self.instances: Dict[str, Any] = {}
        self.floors: Dict[str, int] = {}
        self.samples: List[Any] = []
        self.declined: List[str] = []
        self.assumptions: List[str] = []
        self.functions: List[str] = []
        self.extra: Dict[str, Any] = {}
        self.trusted_base: List[str] = []
        self.t0 = time.time()

    # ---------------------------------------------------------------- recording
    def add(self, rule, status, construct, text="", detail="", where="", nontrivial=True):
        f = Finding(rule=rule, status=status, construct=construct, text=text, detail=detail,
                    where=where, nontrivial=nontrivial)
        self.findings.append(f)
        return f

    def ok(self, rule, construct, text="", detail="", where="", nontrivial=True):
        return self.add(rule, OK, construct, text, detail, where, nontrivial)

    def violation(self, rule, construct, text="", detail="", where=""):
        return self.add(rule, VIOLATION, construct, text, detail, where)

    def inconclusive(self, rule, construct, text="", detail="", where=""):
        return self.add(rule, INCONCLUSIVE, construct, text, detail, where)

    def error(self, rule, construct, detail="", where=""):
        return self.add(rule, ERROR, construct, "", detail, where)

    def info(self, rule, construct, text="", detail="", where=""):
        return self.add(rule, INFO, construct, text, detail, where, nontrivial=False)

    def count(self, name: str, value: int, floor: Optional[int] = None):
        self.instances[name] = value
        if floor is not None:
            self.floors[name] = floor

    def sample(self, obj):
        if len(self.samples) < 12:
            self.samples.append(obj)

    def func(self, name: str):
        if name not in self.functions:
            self.functions.append(name)

    # ---------------------------------------------------------------- finishing
    def finish(self, consulted: Dict[str, str], seed: int = 0) -> int:
        known = load_known()
        # floors
        for name, floor in self.floors.items():
            if self.instances.get(name, 0) < floor:
                self.error("floor", name,
                           f"instance count {self.instances.get(name, 0)} below the confirmed floor {floor}")
        viols = [f for f in self.findings if f.status == VIOLATION]
        new_viols, known_hits = [], []
        for f in viols:
            k = f.key(self.prop)
            ent = known.get(k)
            if ent is not None and ent.get("status") == "known":
                known_hits.append((f, ent))
            else:
                new_viols.append(f)
        problems = [f for f in self.findings if f.status in (INCONCLUSIVE, ERROR)]
        oblig = [f for f in self.findings if f.status in (OK, VIOLATION, INCONCLUSIVE, ERROR)]
        discharged = [f for f in self.findings if f.status == OK]

        for f, ent in known_hits:
            print(f"KNOWN-FINDING: property={self.prop} {f.rule} {f.construct}: {ent.get('what') or f.detail}")
        exit_code = 0
        REPLAY_DIR.mkdir(parents=True, exist_ok=True)
        for i, f in enumerate(new_viols):
            rp = REPLAY_DIR / f"{self.prop}-{i}.json"
            rp.write_text(json.dumps({"property": self.prop, **asdict(f)}, indent=1))
            print(f"VIOLATION property={self.prop} replay={rp}")
            print(f"  rule={f.rule} construct={f.construct} at {f.where}")
            print(f"  text: {f.text}")
            print(f"  why: {f.detail}")
            exit_code = 1
        for f in problems:
            tag = "ANALYSIS-INCONCLUSIVE" if f.status == INCONCLUSIVE else "ANALYSIS-ERROR"
            print(f"{tag} property={self.prop} rule={f.rule} construct={f.construct} at {f.where}: {f.detail} {f.text}")
            if exit_code == 0:
                exit_code = 2

        distinct = len({(f.rule, f.construct, f.text) for f in oblig if f.nontrivial})
        cov: Dict[str, Any] = {
            "explanation": self.explanation,
            "obligations": len(oblig),
            "discharged": len(discharged),
            "evaluations": len(oblig),
            "distinct_nontrivial": distinct,
            "rule": "one obligation per (rule, construct, statement) instance enumerated from the "
                    "current source tree; non-trivial = the instance has a checkable condition "
                    "(informational rows are not counted); distinct by (rule, construct, text)",
            "samples": self.samples or [asdict(f) for f in oblig[:5]],
            "instances": self.instances,
            "instance_floors": self.floors,
            "functions_analysed": self.functions,
            "files": {k: "sha256:" + v for k, v in sorted(consulted.items())},
            "declined_clauses": self.declined,
            "rules": _per_rule(self.findings),
            "known_findings_reported": [f"{f.rule} {f.construct}" for f, _ in known_hits],
            "violations_reported": [asdict(f) for f in new_viols],
            "inconclusive": [asdict(f) for f in problems],
            "informational": [asdict(f) for f in self.findings if f.status == INFO][:40],
            "exhaustive": True,
            "checker_cmd": f"/venv/bin/python sa/check.py {self.prop} --tier {self.tier}",
            "trusted_base": self.trusted_base or [
                "Python ast parser", "sa/model.py constant folder and MRO",
                "sa/cfg.py CFG construction (exception edges over-approximate)"],
        }
        if self.level == "translation_validation":
            cov["programs"] = self.instances.get("programs", 0)
            cov["disagreements_checked"] = self.instances.get("disagreements_checked", len(viols))
        cov.update(self.extra)
        ev = {
            "property_id": self.prop,
            "tier": self.tier,
            "seed": seed,
            "level": self.level,
            "coverage": cov,
            "assumptions": self.assumptions,
            "wall_s": round(time.time() - self.t0, 3),
            "violations": len(new_viols),
        }
        EVIDENCE_DIR.mkdir(parents=True, exist_ok=True)
        (EVIDENCE_DIR / f"{self.prop}.json").write_text(json.dumps(ev, indent=1, default=str) + "\n")
        status = {0: "HOLDS", 1: "VIOLATED", 2: "UNDECIDED"}[exit_code]
        print(f"{self.prop} [{self.tier}] {status}: {len(discharged)}/{len(oblig)} obligations discharged, "
              f"{len(known_hits)} known finding(s), {len(new_viols)} violation(s), "
              f"{len(problems)} inconclusive/error; instances={self.instances}")
        return exit_code


def _per_rule(findings: List[Finding]) -> Dict[str, Dict[str, int]]:
    out: Dict[str, Dict[str, int]] = {}
    for f in findings:
        d = out.setdefault(f.rule, {})
        d[f.status] = d.get(f.status, 0) + 1
    return out


def load_known() -> Dict[tuple, dict]:
    if not KNOWN_FILE.exists():
        return {}
    data = json.loads(KNOWN_FILE.read_text())
    out = {}
    for ent in data.get("findings", []):
        k = (ent["property"], ent["rule"], ent["construct"], " ".join(ent.get("text", "").split()))
        out[k] = ent
    return out
