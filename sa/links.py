"""Link-table discipline: mutation extraction, parallel-pair rules, census (C07, C08)."""

from __future__ import annotations

import ast
from dataclasses import dataclass
from typing import Dict, List, Optional, Set, Tuple

from .cfg import CFG, Node
from .model import AnchorMissing, ClassInfo, Repo, attr_chain, norm, walk_no_nested

TABLES = ("in_links", "in_link_slots", "out_links", "out_link_slots")
PAIR = {"in_links": "in_link_slots", "in_link_slots": "in_links",
        "out_links": "out_link_slots", "out_link_slots": "out_links"}
SIDE = {"in_links": "in", "in_link_slots": "in", "out_links": "out", "out_link_slots": "out"}
MUT_METHODS = {"append", "extend", "insert", "pop", "remove", "clear", "sort", "reverse", "__setitem__", "__delitem__"}


@dataclass
class Mut:
    kind: str            # append | setidx | create | extend | pop | del | other:<name>
    table: str
    base: str            # normalised text of the object owning the table
    index: Optional[str]
    value: Optional[str]
    node: ast.AST

    def short(self) -> str:
        if self.kind == "append":
            return f"{self.base}.{self.table}.append({self.value})"
        if self.kind == "setidx":
            return f"{self.base}.{self.table}[{self.index}] = {self.value}"
        return f"{self.base}.{self.table}.{self.kind}"


def table_ref(e: ast.AST, aliases: Dict[str, Tuple[str, str]]) -> Optional[Tuple[str, str]]:
    """(base text, table) if `e` denotes a link table (directly or through a local alias)."""
    if isinstance(e, ast.Attribute) and e.attr in TABLES:
        return norm(e.value), e.attr
    if isinstance(e, ast.Name) and e.id in aliases:
        return aliases[e.id]
    return None


def stmt_muts(st: ast.AST, aliases: Dict[str, Tuple[str, str]]) -> List[Mut]:
    """Mutations performed by one simple statement (aliases updated in place for `x = y.table`)."""
    out: List[Mut] = []
    if isinstance(st, ast.Assign):
        # alias definitions in one tuple assignment: a, b = x.in_links, x.in_link_slots
        if len(st.targets) == 1 and isinstance(st.targets[0], ast.Tuple) and isinstance(st.value, ast.Tuple) \
                and len(st.targets[0].elts) == len(st.value.elts) and all(isinstance(t, ast.Name) for t in st.targets[0].elts):
            refs = [table_ref(v, aliases) for v in st.value.elts]
            if any(r is not None for r in refs):
                for t, r in zip(st.targets[0].elts, refs):
                    if r is not None:
                        aliases[t.id] = r
                    else:
                        aliases.pop(t.id, None)
                return out
        # alias definition
        if len(st.targets) == 1 and isinstance(st.targets[0], ast.Name):
            r = table_ref(st.value, aliases)
            if r is not None:
                aliases[st.targets[0].id] = r
                return out
            aliases.pop(st.targets[0].id, None)
        for t in st.targets:
            if isinstance(t, (ast.Tuple, ast.List)):
                # self.in_links, self.in_link_slots = [], []
                vals = st.value.elts if isinstance(st.value, (ast.Tuple, ast.List)) and len(st.value.elts) == len(t.elts) else [st.value] * len(t.elts)
                for tt, vv in zip(t.elts, vals):
                    if isinstance(tt, ast.Attribute) and tt.attr in TABLES:
                        out.append(Mut("create", tt.attr, norm(tt.value), None, norm(vv), st))
            if isinstance(t, ast.Attribute) and t.attr in TABLES:
                out.append(Mut("create", t.attr, norm(t.value), None, norm(st.value), st))
            elif isinstance(t, ast.Subscript):
                r = table_ref(t.value, aliases)
                if r is not None:
                    out.append(Mut("setidx", r[1], r[0], norm(t.slice), norm(st.value), st))
    elif isinstance(st, ast.AugAssign):
        r = table_ref(st.target, aliases) or (table_ref(st.target.value, aliases) if isinstance(st.target, ast.Subscript) else None)
        if r is not None:
            # `table += seq` on a list is an in-place extend
            whole = not isinstance(st.target, ast.Subscript) and isinstance(st.op, ast.Add)
            out.append(Mut("extend" if whole else "other:augassign", r[1], r[0], None, norm(st.value), st))
    elif isinstance(st, ast.Delete):
        for t in st.targets:
            if isinstance(t, ast.Subscript):
                r = table_ref(t.value, aliases)
                if r is not None:
                    out.append(Mut("del", r[1], r[0], norm(t.slice), None, st))
    for c in ast.walk(st) if not isinstance(st, (ast.FunctionDef, ast.ClassDef)) else []:
        if isinstance(c, ast.Call) and isinstance(c.func, ast.Attribute) and c.func.attr in MUT_METHODS:
            r = table_ref(c.func.value, aliases)
            if r is not None:
                kind = c.func.attr if c.func.attr in ("append", "extend", "pop") else "other:" + c.func.attr
                out.append(Mut(kind, r[1], r[0], None, norm(c.args[0]) if c.args else None, c))
    return out


def function_muts(fn: ast.AST) -> List[Mut]:
    """Flow-insensitive extraction for the census (aliases from straight-line order of the source)."""
    aliases: Dict[str, Tuple[str, str]] = {}
    out: List[Mut] = []
    stmts = [n for n in walk_no_nested(fn) if isinstance(n, ast.stmt)]
    stmts.sort(key=lambda s: (getattr(s, "_seq", None) if hasattr(s, "_seq") else s.lineno, s.col_offset))
    for st in stmts:
        if isinstance(st, (ast.Assign, ast.AugAssign, ast.Delete, ast.Expr, ast.Return)):
            out.extend(stmt_muts(st, aliases))
        elif isinstance(st, (ast.While, ast.If)):
            # calls inside the test expression
            out.extend(stmt_muts(ast.Expr(value=st.test), aliases))
    return out


def census(repo: Repo) -> Dict[str, List[Mut]]:
    """qualified function -> link-table mutations, over every file under src/python/rv.

    Functions are flattened first (private helpers inlined, see sa/inline.py), so a helper that receives a table as an
    argument, or that holds the body of one operation, is accounted to the function that calls it; a private helper
    that was inlined at every place it is called from is not listed a second time."""
    from . import inline
    out: Dict[str, List[Mut]] = {}
    inlined_names: Set[str] = set()
    called_raw: Dict[str, int] = {}
    owners: Dict[int, ClassInfo] = {}
    for c in repo.all_classes():
        for f in list(c.methods.values()) + list(c.getters.values()) + list(c.setters.values()):
            owners[id(f)] = c
    for rel, sf in sorted(repo.files.items()):
        if not sf.modname.startswith("rv"):
            continue

        def rec(node, prefix):
            for ch in ast.iter_child_nodes(node):
                if isinstance(ch, (ast.FunctionDef, ast.AsyncFunctionDef)):
                    il = inline.Inliner(repo, owners.get(id(ch)), sf)
                    try:
                        il.flatten(ch)
                        flat = inline.normalize(repo, owners.get(id(ch)), ch, sf)      # the normal form: helpers read through, tables unrolled
                        # helpers reached only in the normal form (conditional callee, closures) count as read through as well
                        il2 = inline.Inliner(repo, owners.get(id(ch)), sf)
                        il2.flatten(inline.split_conditional_callee(inline.unroll(il.flatten(ch), repo, owners.get(id(ch)), sf)))
                        il.inlined.extend(il2.inlined)
                    except Exception:
                        flat = ch
                    inlined_names.update(il.inlined)
                    for c2 in ast.walk(flat):
                        if isinstance(c2, ast.Call):
                            nm = c2.func.attr if isinstance(c2.func, ast.Attribute) else (c2.func.id if isinstance(c2.func, ast.Name) else None)
                            if nm:
                                called_raw[nm] = called_raw.get(nm, 0) + 1
                    ms = function_muts(flat)
                    if ms:
                        out[f"{rel}:{prefix}{ch.name}"] = ms
                    rec(ch, f"{prefix}{ch.name}.")
                elif isinstance(ch, ast.ClassDef):
                    rec(ch, f"{prefix}{ch.name}.")
                else:
                    rec(ch, prefix)
        rec(sf.tree, "")
    # members installed by code (see sa/synth.py) are functions of their class as well
    for c in repo.all_classes():
        if not c.file.modname.startswith("rv"):
            continue
        for name, f in list(c.methods.items()) + list(c.setters.items()):
            if getattr(f, "_synthetic", False):
                il = inline.Inliner(repo, c, c.file)
                try:
                    flat = inline.unroll(il.flatten(f), repo, c, c.file)
                except Exception:
                    flat = f
                inlined_names.update(il.inlined)
                ms = function_muts(flat)
                if ms:
                    out[f"{c.file.rel}:{c.qualname}.{name}"] = ms
    for key in list(out):
        name = key.rsplit(".", 1)[-1].split(":")[-1]
        if name in inlined_names and name.startswith("_") and not name.startswith("__") and not called_raw.get(name):
            del out[key]          # accounted to its callers
    return out


# --------------------------------------------------------------------- path discipline
def path_events(g: CFG, path: List[Tuple[int, str]]) -> Tuple[List[Mut], Dict[str, str], List[Tuple[str, str]]]:
    """Replay one CFG path: mutations in order, final local definitions, and (var, expr) bindings in order.

    Statements left through their `exc` edge contribute nothing (their effect did not happen).
    """
    aliases: Dict[str, Tuple[str, str]] = {}
    muts: List[Mut] = []
    binds: List[Tuple[str, str, int]] = []
    for nid, lab in path:
        n = g.nodes[nid]
        if n.kind != "stmt" or n.ast is None or lab in ("exc",):
            continue
        st = n.ast
        before = len(muts)
        muts.extend(stmt_muts(st, aliases))
        if isinstance(st, ast.Assign) and len(st.targets) == 1 and isinstance(st.targets[0], ast.Name):
            binds.append((st.targets[0].id, st.value, before))
    return muts, aliases, binds
