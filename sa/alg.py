"""Exact polynomial / rational-function arithmetic over named symbols (Fraction coefficients)."""

from __future__ import annotations

import ast
from fractions import Fraction
from typing import Callable, Dict, Optional, Tuple

from .model import NotConst, norm

Mono = Tuple[Tuple[str, int], ...]   # sorted ((symbol, power), ...)


class Poly:
    __slots__ = ("t",)

    def __init__(self, terms: Optional[Dict[Mono, Fraction]] = None):
        self.t = {m: c for m, c in (terms or {}).items() if c != 0}

    @staticmethod
    def const(c) -> "Poly":
        return Poly({(): Fraction(c)})

    @staticmethod
    def sym(name: str) -> "Poly":
        return Poly({((name, 1),): Fraction(1)})

    def __add__(self, o):
        o = _p(o)
        t = dict(self.t)
        for m, c in o.t.items():
            t[m] = t.get(m, 0) + c
        return Poly(t)

    __radd__ = __add__

    def __neg__(self):
        return Poly({m: -c for m, c in self.t.items()})

    def __sub__(self, o):
        return self + (-_p(o))

    def __rsub__(self, o):
        return _p(o) - self

    def __mul__(self, o):
        o = _p(o)
        t: Dict[Mono, Fraction] = {}
        for m1, c1 in self.t.items():
            for m2, c2 in o.t.items():
                d = dict(m1)
                for s, p in m2:
                    d[s] = d.get(s, 0) + p
                m = tuple(sorted(d.items()))
                t[m] = t.get(m, 0) + c1 * c2
        return Poly(t)

    __rmul__ = __mul__

    def __eq__(self, o):
        return isinstance(o, (Poly, int, Fraction)) and (self - _p(o)).t == {}

    def __hash__(self):
        return hash(tuple(sorted(self.t.items())))

    def is_const(self) -> bool:
        return all(m == () for m in self.t)

    def const_value(self) -> Fraction:
        return self.t.get((), Fraction(0))

    def symbols(self):
        return {s for m in self.t for s, _ in m}

    def subst(self, name: str, value: "Poly") -> "Poly":
        out = Poly()
        for m, c in self.t.items():
            term = Poly.const(c)
            for s, p in m:
                base = value if s == name else Poly.sym(s)
                for _ in range(p):
                    term = term * base
            out = out + term
        return out

    def coeff_of(self, name: str) -> "Poly":
        """Coefficient polynomial of `name`^1 (terms linear in name)."""
        t = {}
        for m, c in self.t.items():
            d = dict(m)
            if d.get(name) == 1:
                del d[name]
                t[tuple(sorted(d.items()))] = c
        return Poly(t)

    def degree_in(self, name: str) -> int:
        return max([dict(m).get(name, 0) for m in self.t] or [0])

    def __repr__(self):
        if not self.t:
            return "0"
        parts = []
        for m, c in sorted(self.t.items()):
            ms = "*".join(s if p == 1 else f"{s}^{p}" for s, p in m)
            if ms:
                parts.append(f"{c}*{ms}" if c != 1 else ms)
            else:
                parts.append(str(c))
        return " + ".join(parts)


def _p(x) -> Poly:
    return x if isinstance(x, Poly) else Poly.const(x)


class Rat:
    """num/den with polynomial numerator and denominator."""

    __slots__ = ("n", "d")

    def __init__(self, n, d=1):
        self.n, self.d = _p(n), _p(d)

    def __add__(self, o):
        o = _r(o)
        return Rat(self.n * o.d + o.n * self.d, self.d * o.d)

    def __sub__(self, o):
        o = _r(o)
        return Rat(self.n * o.d - o.n * self.d, self.d * o.d)

    def __mul__(self, o):
        o = _r(o)
        return Rat(self.n * o.n, self.d * o.d)

    def __truediv__(self, o):
        o = _r(o)
        return Rat(self.n * o.d, self.d * o.n)

    def __neg__(self):
        return Rat(-self.n, self.d)

    def equals(self, o) -> bool:
        o = _r(o)
        return self.n * o.d == o.n * self.d

    def __repr__(self):
        return f"({self.n}) / ({self.d})"


def _r(x) -> Rat:
    return x if isinstance(x, Rat) else Rat(x)


class NotAlgebraic(Exception):
    pass


def to_poly(e: ast.expr, leaf: Callable[[ast.expr], Optional[Poly]]) -> Poly:
    """AST -> Poly; `leaf` maps a non-arithmetic sub-expression to a Poly (or None)."""
    if isinstance(e, ast.Constant) and isinstance(e.value, (int,)) and not isinstance(e.value, bool):
        return Poly.const(e.value)
    got = leaf(e)
    if got is not None:
        return got
    if isinstance(e, ast.BinOp):
        if isinstance(e.op, ast.Add):
            return to_poly(e.left, leaf) + to_poly(e.right, leaf)
        if isinstance(e.op, ast.Sub):
            return to_poly(e.left, leaf) - to_poly(e.right, leaf)
        if isinstance(e.op, ast.Mult):
            return to_poly(e.left, leaf) * to_poly(e.right, leaf)
        if isinstance(e.op, ast.LShift):
            r = to_poly(e.right, leaf)
            if r.is_const() and r.const_value().denominator == 1 and 0 <= r.const_value() < 64:
                return to_poly(e.left, leaf) * (1 << int(r.const_value()))
    if isinstance(e, ast.UnaryOp) and isinstance(e.op, ast.USub):
        return -to_poly(e.operand, leaf)
    if isinstance(e, ast.UnaryOp) and isinstance(e.op, ast.UAdd):
        return to_poly(e.operand, leaf)
    raise NotAlgebraic(norm(e))


def to_rat(e: ast.expr, leaf: Callable[[ast.expr], Optional[Rat]]) -> Rat:
    if isinstance(e, ast.Constant) and isinstance(e.value, (int, float)) and not isinstance(e.value, bool):
        return Rat(Poly.const(Fraction(e.value)))
    got = leaf(e)
    if got is not None:
        return got
    if isinstance(e, ast.BinOp):
        a = to_rat(e.left, leaf)
        b = to_rat(e.right, leaf)
        if isinstance(e.op, ast.Add):
            return a + b
        if isinstance(e.op, ast.Sub):
            return a - b
        if isinstance(e.op, ast.Mult):
            return a * b
        if isinstance(e.op, ast.Div):
            return a / b
    if isinstance(e, ast.UnaryOp) and isinstance(e.op, ast.USub):
        return -to_rat(e.operand, leaf)
    raise NotAlgebraic(norm(e))
