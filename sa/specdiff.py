"""Translation validation: specs/fileformat.yaml `module_types` vs rv/modules/base/*.py ASTs.

The expected class model is built from the YAML by re-implementing the *meaning* of the
generator template (what a reader of the spec expects: a declared bound is a bound), not
its text; the actual model is read off the parsed Base<Type> class.
"""

from __future__ import annotations

import ast
from dataclasses import dataclass
from typing import Any, Dict, List, Optional, Tuple

import yaml

from .classmodel import CtlDesc, OptDesc, own_controllers, own_options
from .model import AnchorMissing, ClassInfo, NotConst, Repo, norm

SPEC = "specs/fileformat.yaml"

# enumname(): replacement table as implemented by the checker; compared with the AST of
# genrv/tools/generate.py by `check_enumname` so that a change on either side is seen.
ENUMNAME_REPLACEMENTS = [("/", "_div_"), ("*", "_mul_"), (".", "_"), ("+", "_plus_"),
                         ("-", "_neg_"), ("^", "_pow_")]


def enumname(ekey: str) -> str:
    ekey = str(ekey)
    for a, b in ENUMNAME_REPLACEMENTS:
        ekey = ekey.replace(a, b)
    if ekey[0].isdigit():
        ekey = f"_{ekey}"
    elif ekey[0] == "_":
        ekey = ekey[1:]
    while "__" in ekey:
        ekey = ekey.replace("__", "_")
    return ekey.lower()


def load_spec(repo: Repo) -> Dict[str, Any]:
    text = repo.text_file(SPEC)
    return yaml.safe_load(text)


@dataclass
class Disagreement:
    mtype: str
    category: str     # header | enum | controller | option | chunk | registry
    path: str         # e.g. controllers[3].default
    expected: Any
    actual: Any
    construct: str
    text: str
    where: str


ELEMENT_TYPES = {"unsigned short": ("H", 2), "unsigned byte": ("B", 1)}


def expected_controllers(modname: str, m: Dict[str, Any]) -> List[Tuple[str, Dict[str, Any]]]:
    ctlmap = {}
    for c in m.get("controllers") or []:
        for cname, cdef in c.items():
            ctlmap[cname] = cdef
    out = []
    for c in m.get("controllers") or []:
        for cname, cdef in c.items():
            name = "in_" if cname == "in" else cname
            d: Dict[str, Any] = {"attached": not ("attached" in cdef and not cdef["attached"])}
            if "min" in cdef and "max" in cdef:
                d["kind"] = "compact" if cdef.get("compact") else "nooffset" if cdef.get("no_offset") else "range"
                d["min"], d["max"] = cdef["min"], cdef["max"]
                d["default"] = cdef.get("default")
            elif "enum" in cdef and "default" in cdef:
                d["kind"] = "enum"
                d["enum"] = cdef["enum"]
                d["default"] = ("enum", cdef["enum"], enumname(cdef["default"]))
            elif "bool" in cdef:
                d["kind"] = "bool"
                d["default"] = cdef.get("default")
            elif "depends_on" in cdef:
                d["kind"] = "dependent"
                d["depends_on"] = cdef["depends_on"]
                enumclass = (ctlmap.get(cdef["depends_on"]) or {}).get("enum")
                d["ranges"] = [[enumclass, enumname(k), v["min"], v["max"]] for k, v in cdef["ranges"].items()]
                first = next(iter(cdef["ranges"].values()))
                d["default_range"] = [first["min"], first["max"]]
                d["range_class"] = "WarnOnlyRange"
                d["default"] = cdef.get("default")
            else:
                d["kind"] = "other"
                d["default"] = cdef.get("default")
            out.append((name, d))
    return out


def expected_options(m: Dict[str, Any]) -> List[Tuple[str, Dict[str, Any]]]:
    out = []
    for o in m.get("options") or []:
        for oname, ospec in o.items():
            d: Dict[str, Any] = {"name": oname, "byte": ospec["byte"], "bit": ospec["bit"],
                                 "size": ospec["size"]}
            if ospec.get("number") is not None:
                d["number"] = ospec["number"]
            if "min" in ospec or "max" in ospec:
                d["min"], d["max"] = ospec.get("min"), ospec.get("max")
            if ospec.get("inverted"):
                d["inverted"] = True
            if ospec.get("exclusive_of"):
                d["exclusive_of"] = list(ospec["exclusive_of"])
            if ospec.get("enum"):
                d["default"] = ("enum", ospec["enum"], str(ospec["default"]))
            else:
                d["default"] = ospec.get("default")
            out.append((oname, d))
    return out


def expected_chunks(modname: str, m: Dict[str, Any]) -> List[Tuple[str, Dict[str, Any]]]:
    out = []
    for ch in m.get("chunks") or []:
        if ch.get("parent_type") != "Array":
            continue
        t, sz = ELEMENT_TYPES.get(ch.get("element_type"), (None, None))
        d: Dict[str, Any] = {
            "chnm": ch.get("chnm"),
            "length": ch["length"] if ch.get("length") else len(ch.get("default") or []),
            "type": t, "element_size": sz,
        }
        if "min" in ch:
            d["min_value"] = ch["min"]
        if "max" in ch:
            d["max_value"] = ch["max"]
        if "enum" in ch:
            d["default"] = [("enum", ch["enum"], str(x)) for x in ch["default"]]
            d["enum"] = ch["enum"]
        else:
            d["default"] = ch.get("default")
        out.append((f"{ch['name']}_chunk", d))
    return out


def actual_chunk(repo: Repo, ci: ClassInfo) -> Dict[str, Any]:
    d: Dict[str, Any] = {}
    for k in ("chnm", "length", "type", "element_size", "min_value", "max_value", "default"):
        if k in ci.assigns:
            try:
                d[k] = repo.fold(ci.assigns[k], ci=ci)
            except NotConst:
                d[k] = ("expr", norm(ci.assigns[k]))
    if "default" in ci.getters:
        fn = ci.getters["default"]
        ret = None
        for st in fn.body:
            if isinstance(st, ast.Return):
                ret = st.value
        if isinstance(ret, ast.List):
            vals = []
            for e in ret.elts:
                parts = norm(e).split(".")
                vals.append(("enum", parts[-2] if len(parts) >= 2 else "?", parts[-1]))
            d["default"] = vals
        pt = ci.getters.get("python_type")
        if pt is not None:
            for st in pt.body:
                if isinstance(st, ast.Return) and st.value is not None:
                    d["enum"] = norm(st.value).split(".")[-1]
        ev = ci.getters.get("encoded_values")
        d["encoded_values"] = norm(ev.body[-1]) if ev is not None else None
    return d


def base_class_for(repo: Repo, modname: str) -> ClassInfo:
    mod = f"rv.modules.base.{modname.lower()}"
    if mod not in repo.by_mod:
        raise AnchorMissing(f"generated file for {modname} ({mod}) not found")
    return repo.cls(f"Base{modname}", module=mod)


def diff_all(repo: Repo) -> Tuple[List[Disagreement], Dict[str, int], List[Any]]:
    spec = load_spec(repo)
    mts = spec.get("module_types") or {}
    out: List[Disagreement] = []
    counts = {"programs": 0, "controllers": 0, "options": 0, "enums": 0, "enum_members": 0,
              "chunks": 0, "fields_compared": 0}
    samples: List[Any] = []

    def dis(mt, cat, path, exp, act, ci, node=None, text=None):
        where = f"{ci.file.rel}:{getattr(node, 'lineno', ci.node.lineno)}" if ci else SPEC
        construct = f"{ci.file.rel}:{ci.qualname}" if ci else f"{SPEC}:{mt}"
        out.append(Disagreement(mt, cat, path, exp, act, construct,
                                text if text is not None else f"{path}: spec={exp!r} class={act!r}", where))

    def cmp(mt, cat, path, exp, act, ci, node=None):
        counts["fields_compared"] += 1
        if _canon(exp) != _canon(act):
            dis(mt, cat, path, exp, act, ci, node)

    for modname, m in mts.items():
        try:
            ci = base_class_for(repo, modname)
        except AnchorMissing as e:
            dis(modname, "registry", "class", f"Base{modname}", None, None, text=str(e))
            continue
        counts["programs"] += 1
        # header ---------------------------------------------------------------
        def cconst(name):
            if name not in ci.assigns:
                return ("missing",)
            try:
                return repo.fold(ci.assigns[name], ci=ci)
            except NotConst:
                return ("expr", norm(ci.assigns[name]))
        cmp(modname, "header", "name", modname, cconst("name"), ci)
        cmp(modname, "header", "mtype", m.get("type") or modname, cconst("mtype"), ci)
        cmp(modname, "header", "mgroup", m.get("group"), cconst("mgroup"), ci)
        cmp(modname, "header", "flags", m.get("defaultFlags") or 0, cconst("flags"), ci)
        cmp(modname, "header", "default_flags", m.get("defaultFlags") or 0, cconst("default_flags"), ci)
        # enums ----------------------------------------------------------------
        exp_enums = m.get("enums") or {}
        act_enums = {n: c for n, c in ci.nested.items() if repo.is_enum(c)}
        for en, members in exp_enums.items():
            counts["enums"] += 1
            if en not in act_enums:
                dis(modname, "enum", f"enums.{en}", "present", "missing", ci)
                continue
            ec = act_enums[en]
            try:
                am = list(repo.enum_members(ec).items())
            except NotConst as e:
                am = [("?", str(e))]
            em = [(enumname(k), v) for k, v in members.items()]
            counts["enum_members"] += len(em)
            cmp(modname, "enum", f"enums.{en}.members", em, am, ci, ec.node)
            cmp(modname, "enum", f"enums.{en}.base", "IntEnum", repo.base_names(ec)[0].split(".")[-1] if ec.node.bases else None, ci, ec.node)
        for en in act_enums:
            if en not in exp_enums:
                dis(modname, "enum", f"enums.{en}", "absent", "present", ci, act_enums[en].node)
        # controllers ------------------------------------------------------------
        exp_ctls = expected_controllers(modname, m)
        act_ctls = own_controllers(repo, ci)
        cmp(modname, "controller", "controllers.order", [n for n, _ in exp_ctls], [c.name for c in act_ctls], ci)
        actmap = {c.name: c for c in act_ctls}
        for i, (cname, ed) in enumerate(exp_ctls, 1):
            counts["controllers"] += 1
            ac = actmap.get(cname)
            if ac is None:
                continue  # reported by order comparison
            ad = ac.canon()
            for k in sorted(set(ed) | set(ad)):
                cmp(modname, "controller", f"controllers.{cname}[#{i}].{k}", ed.get(k), ad.get(k), ci, ac.node)
            if len(samples) < 4 and ed["kind"] in ("dependent", "compact", "nooffset"):
                samples.append({"type": modname, "controller": cname, "number": i, "spec": ed, "class": ad})
        # options ----------------------------------------------------------------
        exp_opts = expected_options(m)
        act_opts = own_options(repo, ci)
        cmp(modname, "option", "options.order", [n for n, _ in exp_opts], [o.name for o in act_opts], ci)
        optmap = {o.name: o for o in act_opts}
        for oname, ed in exp_opts:
            counts["options"] += 1
            ao = optmap.get(oname)
            if ao is None:
                continue
            ad = dict(ao.kwargs)
            if isinstance(ad.get("default"), tuple) and ad["default"][0] == "enum":
                ad["default"] = tuple(ad["default"][:3])
            if ad.get("inverted") is False:
                ad.pop("inverted")
            if ad.get("exclusive_of") == []:
                ad.pop("exclusive_of")
            if ad.get("number") is None:
                ad.pop("number", None)
            if ad.get("min") is None and ad.get("max") is None and "min" not in ed:
                ad.pop("min", None), ad.pop("max", None)
            for k in sorted(set(ed) | set(ad)):
                cmp(modname, "option", f"options.{oname}.{k}", ed.get(k), ad.get(k), ci, ao.node)
            if len(samples) < 8 and ("min" in ed or "inverted" in ed or "exclusive_of" in ed):
                samples.append({"type": modname, "option": oname, "spec": ed, "class": _canon(ad)})
        # array chunks -------------------------------------------------------------
        exp_chunks = expected_chunks(modname, m)
        act_chunks = {n: c for n, c in ci.nested.items() if n.endswith("_chunk")}
        cmp(modname, "chunk", "chunks.names", sorted(n for n, _ in exp_chunks), sorted(act_chunks), ci)
        for cn, ed in exp_chunks:
            counts["chunks"] += 1
            cc = act_chunks.get(cn)
            if cc is None:
                continue
            ad = actual_chunk(repo, cc)
            if "enum" in ed:
                if ad.get("encoded_values") != "return [x.value for x in self.values]":
                    dis(modname, "chunk", f"chunks.{cn}.encoded_values", "[x.value for x in self.values]",
                        ad.get("encoded_values"), ci, cc.node)
                ad.pop("encoded_values", None)
            for k in sorted(set(ed) | set(ad)):
                cmp(modname, "chunk", f"chunks.{cn}.{k}", ed.get(k), ad.get(k), ci, cc.node)
        # options_chnm is on the hand-written class
    # registry: classes the spec lacks --------------------------------------------------
    base_mods = [mn for mn in repo.by_mod if mn.startswith("rv.modules.base.") and mn != "rv.modules.base"]
    known = {f"rv.modules.base.{n.lower()}" for n in mts}
    for mn in sorted(base_mods):
        if mn not in known:
            sf = repo.by_mod[mn]
            out.append(Disagreement(mn, "registry", "base module", "absent from spec", "present",
                                    f"{sf.rel}", f"generated base module {mn} has no module_types entry", f"{sf.rel}:1"))
    return out, counts, samples


def _canon(v):
    if isinstance(v, tuple):
        return [_canon(x) for x in v]
    if isinstance(v, list):
        return [_canon(x) for x in v]
    if isinstance(v, dict):
        return {k: _canon(x) for k, x in v.items()}
    if isinstance(v, bool):
        return ("bool", v)
    if isinstance(v, float) and v == int(v):
        return int(v)
    return v


def check_enumname(repo: Repo) -> List[str]:
    """Compare the checker's replacement table with genrv.tools.generate.enumname's AST."""
    from . import inline
    from .packed import single_defs, resolve_names
    fn = repo.func("genrv.tools.generate", "enumname")
    # the function as it reads with its loops over constant tables unrolled and one-use locals written out
    fn = inline.normalize(repo, None, fn, sf=repo.module("genrv.tools.generate"))
    defs = single_defs(fn)
    reps = []
    problems = []
    has_lower = has_digit_prefix = has_strip_underscore = has_collapse = False
    from_translate = False
    for node in ast.walk(fn):
        if isinstance(node, ast.Call) and isinstance(node.func, ast.Attribute):
            if node.func.attr == "replace" and len(node.args) == 2:
                try:
                    a, b = ast.literal_eval(node.args[0]), ast.literal_eval(node.args[1])
                except Exception:
                    problems.append(f"?replacement with operands that are not visible constants: {norm(node)}")
                    continue
                if (a, b) == ("__", "_"):
                    has_collapse = True
                else:
                    reps.append((a, b))
            elif node.func.attr == "sub" and len(node.args) >= 2:
                # re.sub("_{2,}", "_", key)   /   COMPILED.sub("_", key)
                pat = None
                if norm(node.func.value) == "re" and len(node.args) == 3:
                    pat, rep_ = node.args[0], node.args[1]
                else:
                    d = inline.definition_of(repo, None, repo.module("genrv.tools.generate"), node.func.value)
                    if isinstance(d, ast.Call) and norm(d.func) in ("re.compile", "compile") and d.args:
                        pat, rep_ = d.args[0], node.args[0]
                try:
                    if pat is not None and ast.literal_eval(pat) in ("_{2,}", "__+", "_+", "_{2,}+") and ast.literal_eval(rep_) == "_":
                        has_collapse = True
                    elif pat is not None:
                        problems.append(f"?regular-expression replacement {norm(node)}")
                except Exception:
                    problems.append(f"?regular-expression replacement {norm(node)}")
            elif node.func.attr == "translate" and len(node.args) == 1:
                # key.translate(str.maketrans({"/": "_div_", …})): one pass; equal to the chain of replace() calls when no replacement
                # text contains a character that is itself translated
                d = node.args[0]
                if isinstance(d, (ast.Name, ast.Attribute)):
                    d = inline.definition_of(repo, None, repo.module("genrv.tools.generate"), d) or d
                table = None
                if isinstance(d, ast.Call) and norm(d.func) in ("str.maketrans", "maketrans") and len(d.args) == 1 and isinstance(d.args[0], ast.Dict):
                    try:
                        table = ast.literal_eval(d.args[0])
                    except Exception:
                        table = None
                if isinstance(table, dict) and all(isinstance(k, str) and len(k) == 1 and isinstance(v, str) for k, v in table.items()) \
                        and not any(k in v for k in table for v in table.values()):
                    reps.extend(table.items())
                    from_translate = True
                else:
                    problems.append(f"?translation table not visible as a dict of single characters: {norm(node)[:80]}")
            elif node.func.attr == "lower":
                has_lower = True
            elif node.func.attr == "isdigit":
                has_digit_prefix = True
        if isinstance(node, ast.Compare) and norm(resolve_names(node, defs)) == "ekey[0] == '_'":
            has_strip_underscore = True
        # the same test on the key after its characters were replaced (none of the replacements starts with an underscore-free
        # prefix that could hide one): `first = name[0] … elif first == "_"`, `name.startswith("_")`
        if isinstance(node, ast.Compare) and len(node.ops) == 1 and isinstance(node.ops[0], ast.Eq) and norm(node.comparators[0]) == "'_'":
            l_ = resolve_names(node.left, defs)
            if isinstance(l_, ast.Subscript) and norm(l_.slice) == "0":
                has_strip_underscore = True
        if isinstance(node, ast.Call) and isinstance(node.func, ast.Attribute) and node.func.attr == "startswith" and [norm(a) for a in node.args] == ["'_'"]:
            has_strip_underscore = True
    if from_translate and sorted(reps) == sorted(ENUMNAME_REPLACEMENTS):
        pass
    elif not reps and any(p_.startswith("?") for p_ in problems):
        pass            # the replacements were not read: undecided, reported above
    elif reps != ENUMNAME_REPLACEMENTS:
        problems.append(f"replacement table differs: generator {reps} vs checker {ENUMNAME_REPLACEMENTS}")
    for flag, what in ((has_lower, "lower()"), (has_digit_prefix, "digit prefix"),
                       (has_strip_underscore, "leading underscore strip"), (has_collapse, "'__' collapse")):
        if not flag:
            # a step that is not found may be spelled in a way this reader does not know: undecided, not a difference
            problems.append(f"?enumname: step not recognised: {what}")
    return problems
