"""Self-test corpus: text edits of a scratch copy.  expect: V = must report a violation, T = must stay silent."""

CASES = []


def M(id, prop, file, old, new, expect="V", mention=None, props=None, more=None):
    edits = [(file, old, new)] + list(more or [])
    CASES.append({"id": id, "prop": prop, "props": props or [prop], "edits": edits, "expect": expect, "mention": mention})


NOTE = "src/python/rv/note.py"
MODULE = "src/python/rv/modules/module.py"
PROJECT = "src/python/rv/project.py"
ERRORS = "src/python/rv/errors.py"
READER = "src/python/rv/readers/reader.py"
RMODULE = "src/python/rv/readers/module.py"
RSUNVOX = "src/python/rv/readers/sunvox.py"
PATTERN = "src/python/rv/pattern.py"
META = "src/python/rv/modules/meta.py"
CONTROLLER = "src/python/rv/controller.py"
SPEC = "specs/fileformat.yaml"

# ----------------------------------------------------------------------------------- C12
M("C12-D6a", "C12", NOTE, "self.ctl = (self.ctl & 0x00FF) | ((value & 0xFF) << 8)", "self.ctl |= (value & 0xFF) << 8", mention="Note.controller")
M("C12-D6b", "C12", NOTE, "self.ctl = (self.ctl & 0xFF00) | (value & 0xFF)", "self.ctl |= value & 0xFF", mention="Note.effect")
M("C12-D6c", "C12", NOTE, "self.val = (self.val & 0x00FF) | ((value & 0xFF) << 8)", "self.val |= (value & 0xFF) << 8", mention="Note.val_xx")
M("C12-D6d", "C12", NOTE, "self.val = (self.val & 0xFF00) | (value & 0xFF)", "self.val |= value & 0xFF", mention="Note.val_yy")
M("C12-M1", "C12", MODULE, "self.value = self.value - self.level_mode + (v & 0b11111)", "self.value = self.value - self.level_mode + (v & 0b1111)", mention="level_mode")
M("C12-M2", "C12", MODULE, "self.value - (self.oscilloscope_size << 16) + (max(0, min(v, 0xFF)) << 16)", "self.value - (self.oscilloscope_size << 16) + (max(0, min(v, 0xFF)) << 15)", mention="oscilloscope_size")
M("C12-M3", "C12", NOTE, "self.note, self.vel, self.module, self.ctl, self.val = unpack(", "self.note, self.vel, self.ctl, self.module, self.val = unpack(", mention="Note.raw_data")
M("C12-M4", "C12", PATTERN, "offset = (line_no * self.tracks * 8) + (track_no * 8)", "offset = (line_no * self.lines * 8) + (track_no * 8)", mention="Pattern.raw_data")
M("C12-M5", "C12", RSUNVOX, "self.object.receive_sync_other = (val >> 3) & 0b111", "self.object.receive_sync_other = (val >> 2) & 0b111", mention="SFGS")
M("C12-M6", "C12", MODULE, "pack(\"<I\", int(self.midi_in_always) + (self.midi_in_channel << 1))", "pack(\"<I\", int(self.midi_in_always) + (self.midi_in_channel << 2))", mention="SMII")
M("C12-M7", "C12", MODULE, "self.value = self.value - (int(self.orientation) << 5) + ((int(v) & 1) << 5)", "self.value = self.value + ((int(v) & 1) << 5)", mention="orientation")
M("C12-M8", "C12", NOTE, 'return pack("<BBHHH", self.note, self.vel, self.module, self.ctl, self.val)', 'return pack("<BBHHI", self.note, self.vel, self.module, self.ctl, self.val)', mention="Note.raw_data")
M("C12-M9", "C12", PATTERN, "note_raw_data = raw_data[offset : offset + 8]", "note_raw_data = raw_data[offset : offset + 7]", mention="Pattern.raw_data")
M("C12-M10", "C12", MODULE, "return self.value >> 24 & 3", "return self.value >> 25 & 3", mention="bg_transparency")
M("C12-T1", "C12", MODULE, "self.value = self.value - self.level_mode + (v & 0b11111)", "self.value = (self.value & ~0b11111) | (v & 0b11111)", expect="T")
M("C12-T2", "C12", NOTE, "self.ctl = (self.ctl & 0x00FF) | ((value & 0xFF) << 8)", "self.ctl = self.ctl - (self.controller << 8) + ((value & 0xFF) << 8)", expect="T")
M("C12-T3", "C12", PATTERN, "offset = (line_no * self.tracks * 8) + (track_no * 8)", "offset = 8 * (track_no + self.tracks * line_no)", expect="T")

# ----------------------------------------------------------------------------------- C13
M("C13-D5", "C13", "src/python/rv/modules/base/metamodule.py", "        min=0,\n        max=96,\n", "", mention="user_defined_controllers", props=["C13", "C11"])
M("C13-M1", "C13", "src/python/rv/modules/base/amplifier.py", "volume = Controller((0, 1024), 256)", "volume = Controller((0, 1024), 255)", mention="Amplifier", props=["C13", "C09"])
M("C13-M2", "C13", "src/python/rv/modules/base/amplifier.py", "    balance = Controller((-128, 128), 0)\n    dc_offset = Controller((-128, 128), 0)\n", "    dc_offset = Controller((-128, 128), 0)\n    balance = Controller((-128, 128), 0)\n", mention="Amplifier")
M("C13-M3", "C13", "src/python/rv/modules/base/smooth.py", "        lp_filter = 1\n", "", mention="Smooth")
M("C13-M4", "C13", "src/python/rv/modules/amplifier.py", "class Amplifier(BaseAmplifier, Module):", "class Amplifier2(Module):\n    mtype = \"Amp2\"\n    mgroup = \"Effect\"\n    behaviors = set()\n\n\nclass Amplifier(BaseAmplifier, Module):", mention="Amplifier2")
M("C13-M5", "C13", "src/python/rv/modules/multisynth.py", "options_chnm = 1", "options_chnm = 2", mention="options_chnm")
M("C13-M6", "C13", "src/python/genrv/tools/generate.py", 'ekey = ekey.replace("-", "_neg_")', 'ekey = ekey.replace("-", "_minus_")', mention="enumname")
M("C13-M7", "C13", SPEC, "- volume: { min: 0, max: 1024, default: 256 }\n      - balance:", "- volume: { min: 0, max: 1000, default: 256 }\n      - balance:", mention="Amplifier")
M("C13-M8", "C13", META, "for i, (k, v) in enumerate(ordered_controllers, 1):", "for i, (k, v) in enumerate(ordered_controllers, 0):", mention="ModuleMeta", props=["C13", "C09"])
M("C13-M9", "C13", META, "        ordered_controllers.sort(key=lambda x: x[1]._order)\n", "", mention="ModuleMeta", props=["C13", "C09"])
M("C13-M10", "C13", "src/python/rv/modules/base/multisynth.py", "        byte=2,\n        bit=0,\n        size=2,\n        default=ActiveCurve.note_velocity,", "        byte=2,\n        bit=0,\n        size=1,\n        default=ActiveCurve.note_velocity,", mention="active_curve")
M("C13-M11", "C13", "src/python/rv/modules/__init__.py", "from .amplifier import Amplifier\n", "", mention="Amplifier")
M("C13-T1", "C13", "src/python/rv/modules/base/amplifier.py", "volume = Controller((0, 1024), 256)", "volume = Controller(\n        (0, 1024),\n        256,\n    )", expect="T")
M("C13-T2", "C13", "src/python/rv/modules/base/amplifier.py", "volume = Controller((0, 1024), 256)", "volume = Controller((0, 0x400), 0x100)", expect="T")

# ----------------------------------------------------------------------------------- C18
M("C18-M1", "C18", ERRORS, "    try:\n        yield\n    finally:\n        RAISE_CONTROLLER_VALUE_ERRORS = old_raise_errors\n", "    yield\n    RAISE_CONTROLLER_VALUE_ERRORS = old_raise_errors\n", mention="override_raise_controller_value_errors")
M("C18-M2", "C18", ERRORS, "    finally:\n        RAISE_CONTROLLER_VALUE_ERRORS = old_raise_errors\n", "    finally:\n        RAISE_CONTROLLER_VALUE_ERRORS = True\n", mention="override_raise_controller_value_errors")
M("C18-M3", "C18", READER, "        try:\n            reader = InitialReader(file_or_name)\n            return reader.object\n        finally:\n            if close:\n                file_or_name.close()\n", "        reader = InitialReader(file_or_name)\n        obj = reader.object\n        if close:\n            file_or_name.close()\n        return obj\n", mention="read_sunvox_file")
M("C18-M4", "C18", READER, "        finally:\n            if close:\n                file_or_name.close()\n", "        except Exception:\n            if close:\n                file_or_name.close()\n            raise\n", mention="read_sunvox_file")
M("C18-M5", "C18", READER, "            close = True\n        try:\n            reader = InitialReader(file_or_name)\n            return reader.object\n", "            close = True\n        reader = InitialReader(file_or_name)\n        try:\n            return reader.object\n", mention="read_sunvox_file")
M("C18-M6", "C18", "src/python/rv/modules/metamodule.py", "    def load_project(self, chunk):\n        self.project = read_sunvox_file(BytesIO(chunk.chdt))", "    def load_project(self, chunk):\n        import rv.errors\n\n        rv.errors.RAISE_CONTROLLER_VALUE_ERRORS = False\n        self.project = read_sunvox_file(BytesIO(chunk.chdt))", mention="load_project")
M("C18-M7", "C18", READER, "    with override_raise_controller_value_errors(RAISE_RANGE_ERRORS_ON_READ):\n        close = False", "    if True:\n        close = False", mention="read_sunvox_file")
M("C18-M8", "C18", "src/python/rv/modules/metamodule.py", "self.project = read_sunvox_file(BytesIO(chunk.chdt))", "from rv.readers.sunvox import SunVoxReader\n        from rv.lib.iff import chunks\n        f = BytesIO(chunk.chdt)\n        next(chunks(f))\n        self.project = SunVoxReader(f).object", mention="load_project")
M("C18-M9", "C18", ERRORS, "    old_raise_errors = RAISE_CONTROLLER_VALUE_ERRORS\n    RAISE_CONTROLLER_VALUE_ERRORS = new_value\n", "    RAISE_CONTROLLER_VALUE_ERRORS = new_value\n    old_raise_errors = RAISE_CONTROLLER_VALUE_ERRORS\n", mention="override_raise_controller_value_errors")
M("C18-M10", "C18", READER, "            if close:\n                file_or_name.close()\n", "            if not close:\n                file_or_name.close()\n", mention="read_sunvox_file")
M("C18-M11", "C18", ERRORS, "@contextmanager\ndef override_raise_controller_value_errors", "def override_raise_controller_value_errors", mention="contextmanager")
M("C18-T1", "C18", READER, "        close = False\n        if isinstance(file_or_name, (Path, str)):\n            file_or_name = Path(file_or_name).open(\"rb\")\n            close = True\n        try:\n            reader = InitialReader(file_or_name)\n            return reader.object\n        finally:\n            if close:\n                file_or_name.close()\n", "        if isinstance(file_or_name, (Path, str)):\n            with Path(file_or_name).open(\"rb\") as f:\n                return InitialReader(f).object\n        reader = InitialReader(file_or_name)\n        return reader.object\n", expect="T")
M("C18-T2", "C18", ERRORS, "    old_raise_errors = RAISE_CONTROLLER_VALUE_ERRORS\n", "    old_raise_errors = RAISE_CONTROLLER_VALUE_ERRORS\n    saved = old_raise_errors\n", expect="T")

# ----------------------------------------------------------------------------------- C19
_OWN = "        for row in new:\n            for note in row:\n                note.pattern = self\n"
M("C19-D9a", "C19", PATTERN, "                new[line][track] = fn(self, line, track)\n" + _OWN, "                new[line][track] = fn(self, line, track)\n", mention="set_via_fn")
M("C19-D9b", "C19", PATTERN, "            new[line][track] = note\n" + _OWN, "            new[line][track] = note\n", mention="set_via_gen")
M("C19-M1", "C19", PATTERN, "        new = deepcopy(self.data)\n        for line in range(self.lines):", "        new = deepcopy(self.data)\n        self._data = new\n        for line in range(self.lines):", mention="set_via_fn")
M("C19-M2", "C19", PATTERN, "        new = deepcopy(self.data)\n        for line in range(self.lines):", "        new = list(self.data)\n        for line in range(self.lines):", mention="set_via_fn")
M("C19-M3", "C19", PATTERN, "        for line, track, note in gen(self, new):\n            new[line][track] = note\n", "        for line, track, note in gen(self, new):\n            self.data[line][track] = note\n", mention="set_via_gen")
M("C19-M4", "C19", PATTERN, "        new = deepcopy(self.data)\n        for line, track, note in gen(self, new):", "        new = self.data\n        for line, track, note in gen(self, new):", mention="set_via_gen")
M("C19-M5", "C19", PATTERN, "        for line, track, note in gen(self, new):\n            new[line][track] = note\n", "        try:\n            for line, track, note in gen(self, new):\n                new[line][track] = note\n        except Exception:\n            self._data = new\n            raise\n", mention="set_via_gen")
M("C19-M6", "C19", PATTERN, "                new[line][track] = fn(self, line, track)\n" + _OWN, "                new[line][track] = fn(self, line, track)\n        for row in new[:1]:\n            for note in row:\n                note.pattern = self\n", mention="set_via_fn")
M("C19-M7", "C19", PATTERN, "            line.extend(Note(pattern=self) for _ in range(self.tracks))", "            line.extend(Note() for _ in range(self.tracks))", mention="clear")
M("C19-T1", "C19", PATTERN, "        new = deepcopy(self.data)\n        for line in range(self.lines):", "        new = [[n.clone() for n in row] for row in self.data]\n        for line in range(self.lines):", expect="T")
M("C19-T2", "C19", PATTERN, "                new[line][track] = fn(self, line, track)\n" + _OWN, "                note = fn(self, line, track)\n                note.pattern = self\n                new[line][track] = note\n", expect="T")

# ----------------------------------------------------------------------------------- C07
M("C07-D3a", "C07", PROJECT, "                    if from_mod_idx not in in_links:  # Already disconnected?\n                        continue", "                    if from_mod_idx not in in_links:  # Already disconnected?\n                        return", mention="Project.connect")
M("C07-D3b", "C07", PROJECT, "                    # [TODO] flatten to remove -1\n                    continue", "                    # [TODO] flatten to remove -1\n                    return", mention="Project.connect")
M("C07-D3c", "C07", PROJECT, "                if from_mod_idx in in_links:  # Already connected?\n                    continue", "                if from_mod_idx in in_links:  # Already connected?\n                    break", mention="Project.connect")
M("C07-D13", "C07", PROJECT, "        for from_operand in from_modules:\n            for to_operand in to_modules:\n                from_module, to_module = from_operand, to_operand\n", "        for from_module in from_modules:\n            for to_module in to_modules:\n", mention="R7")
M("C07-M1", "C07", PROJECT, "                in_links.append(from_mod_idx)\n", "", mention="R2")
M("C07-M2", "C07", PROJECT, "                out_links.append(to_mod_idx)\n", "", mention="R2")
M("C07-M3", "C07", PROJECT, "                in_link_slots.append(out_link_idx)\n", "", mention="R2")
M("C07-M4", "C07", PROJECT, "                out_link_slots.append(in_link_idx)\n", "", mention="R2")
M("C07-M5", "C07", PROJECT, "                    in_link_slots[in_link_idx] = -1\n", "                    in_link_slots[out_link_idx] = -1\n", mention="R2")
M("C07-M6", "C07", PROJECT, "                in_link_slots.append(out_link_idx)\n", "                in_link_slots.append(in_link_idx)\n", mention="R3")
M("C07-M7", "C07", PROJECT, "                out_link_idx = len(out_links)\n                out_links.append(to_mod_idx)\n", "                out_links.append(to_mod_idx)\n                out_link_idx = len(out_links)\n", mention="R3")
M("C07-M8", "C07", MODULE, "    def __rshift__(self, other):\n        self.parent.connect(self, other)\n        if isinstance(other, list):\n            other = ModuleList(self.parent, other)\n        return other\n\n\nclass Behavior", "    def __rshift__(self, other):\n        self.parent.connect(other, self)\n        if isinstance(other, list):\n            other = ModuleList(self.parent, other)\n        return other\n\n\nclass Behavior", mention="ModuleList.__rshift__")
M("C07-M9", "C07", PROJECT, "                in_links = to_module.in_links\n                in_link_slots = to_module.in_link_slots\n                out_links = from_module.out_links\n                out_link_slots = from_module.out_link_slots\n", "                in_links = to_module.in_links\n                in_link_slots = to_module.in_link_slots\n                out_links = to_module.out_links\n                out_link_slots = to_module.out_link_slots\n", mention="R2")
M("C07-M10", "C07", PROJECT, "                    in_links[in_link_idx] = -1\n", "", mention="R2")
M("C07-M11", "C07", PROJECT, "                in_links.append(from_mod_idx)\n", "                in_links.append(to_mod_idx)\n", mention="R3")
M("C07-M12", "C07", PROJECT, "                    out_link_idx = out_links.index(to_mod_idx)\n", "                    out_link_idx = in_link_slots[in_link_idx]\n                    out_link_idx = in_link_idx\n", mention="R3")
M("C07-M13", "C07", PROJECT, "                try:\n                    from_mod_idx = self.module_index(from_module)\n                    to_mod_idx = self.module_index(to_module)\n                except ValueError:\n                    raise ModuleOwnershipError(\n                        \"Modules must have same parent to be connected or disconnected\"\n                    )\n", "                from_mod_idx = from_module.index\n                to_mod_idx = to_module.index\n", mention="R4")
M("C07-M14", "C07", PROJECT, "                if isinstance(to_module, DisconnectingModule):\n                    disconnect = True\n                    to_module = to_module.orig\n", "", mention="R5")
M("C07-M15", "C07", PROJECT, "    def module_index(self, module):", "    def drop_links(self, module):\n        module.in_links.clear()\n\n    def module_index(self, module):", mention="drop_links")
M("C07-M16", "C07", PROJECT, "            for to_operand in to_modules:\n", "            for to_operand in to_modules[:1]:\n", mention="R1")
M("C07-T1", "C07", PROJECT, "        for from_operand in from_modules:\n            for to_operand in to_modules:\n                from_module, to_module = from_operand, to_operand\n", "        from itertools import product\n\n        for from_operand, to_operand in product(from_modules, to_modules):\n            if True:\n                from_module, to_module = from_operand, to_operand\n", expect="T")
M("C07-T2", "C07", PROJECT, "                in_link_idx = len(in_links)\n                in_links.append(from_mod_idx)\n                out_link_idx = len(out_links)\n                out_links.append(to_mod_idx)\n", "                in_link_idx = len(in_links)\n                out_link_idx = len(out_links)\n                in_links.append(from_mod_idx)\n                out_links.append(to_mod_idx)\n", expect="T")

# ----------------------------------------------------------------------------------- C14
M("C14-M1", "C14", PROJECT, "            module.parent = self\n        return module", "        return module", mention="attach_module")
M("C14-M2", "C14", PROJECT, "                module.index = self.module_index(module)\n", "                module.index = len(self.modules)\n", mention="attach_module")
M("C14-M3", "C14", PROJECT, "            if not loading and None in self.modules:", "            if None in self.modules:", mention="attach_module")
M("C14-M4", "C14", PROJECT, "        elif module.parent is not None and module.parent is not self:\n            raise ModuleOwnershipError(\"Module is already attached to another project.\")\n        elif module not in self.modules:", "        elif module not in self.modules:\n            if module.parent is not None and module.parent is not self:\n                self.modules.append(None)\n                raise ModuleOwnershipError(\"Module is already attached to another project.\")", mention="attach_module")
M("C14-M5", "C14", NOTE, "        self.module = new_mod.index + 1", "        self.module = new_mod.index", mention="Note.mod")
M("C14-M6", "C14", PROJECT, "    def module_index(self, module):", "    def adopt(self, pattern):\n        pattern.project = self\n\n    def module_index(self, module):", mention="adopt")
M("C14-M7", "C14", PROJECT, "        elif module not in self.modules:\n            if not loading", "        else:\n            if not loading", mention="attach_module")
M("C14-M8", "C14", PROJECT, "        elif module.parent is not None and module.parent is not self:\n            raise ModuleOwnershipError(\"Module is already attached to another project.\")\n", "", mention="attach_module")
M("C14-M9", "C14", PROJECT, "                module.index = self.module_index(None)\n                self.modules[module.index] = module", "                module.index = len(self.modules) - 1 - self.modules[::-1].index(None)\n                self.modules[module.index] = module", mention="attach_module")
M("C14-M10", "C14", PROJECT, "        self.modules = []\n        self.output = self.attach_module(Output())", "        self.modules = [None]\n        self.output = self.attach_module(Output(), loading=True)", mention="Project.__init__")
M("C14-M11", "C14", NOTE, "        return None if self.module == 0 else self.module - 1", "        return None if self.module == 0 else self.module", mention="module_index")
M("C14-M12", "C14", PROJECT, "        if pattern and pattern.project is not None:\n            raise PatternOwnershipError(\"Pattern already attached to a project\")\n        self.patterns.append(pattern)", "        self.patterns.append(pattern)\n        if pattern and pattern.project is not None:\n            raise PatternOwnershipError(\"Pattern already attached to a project\")", mention="attach_pattern")
M("C14-M13", "C14", PROJECT, "    def module_index(self, module):", "    def swap(self, a, b):\n        self.modules[a], self.modules[b] = self.modules[b], self.modules[a]\n\n    def module_index(self, module):", mention="swap")
M("C14-M14", "C14", "src/python/rv/readers/module.py", "self.object = Module() if self._index > 0 else Output()", "self.object = Module()", mention="ModuleReader.process_chunks")
M("C14-M15", "C14", MODULE, "        return self.index + 1", "        return self.index", mention="__int__")
M("C14-T1", "C14", PROJECT, "                module.index = self.module_index(module)\n", "                module.index = len(self.modules) - 1\n", expect="T")
M("C14-T2", "C14", PROJECT, "                self.modules.append(module)\n                module.index = self.module_index(module)\n", "                module.index = len(self.modules)\n                self.modules.append(module)\n", expect="T")

# ----------------------------------------------------------------------------------- C01
RPATTERN = "src/python/rv/readers/pattern.py"
M("C01-D1", "C01", MODULE, '        name = self.name.encode(ENCODING)[:32].decode(ENCODING, "ignore")\n        yield b"SNAM", name.encode(ENCODING).ljust(32, b"\\0")\n', '        yield b"SNAM", self.name.encode(ENCODING)[:32].ljust(32, b"\\0")\n', mention="SNAM")
M("C01-M1", "C01", RSUNVOX, "    def process_MXOF(self, data):\n        (self.object.modules_x_offset,) = unpack(\"<i\", data)", "    def process_MXOF(self, data):\n        (self.object.modules_y_offset,) = unpack(\"<i\", data)", mention="MXOF")
M("C01-M2", "C01", PROJECT, 'yield b"PATL", pack("<I", self.current_line)', 'yield b"PATL", pack("<H", self.current_line)', mention="PATL")
M("C01-M3", "C01", RSUNVOX, "    def process_TGD2(self, data):\n        (self.object.time_grid2,) = unpack(\"<I\", data)\n\n", "", mention="TGD2")
M("C01-M4", "C01", PROJECT, "            if pattern is not None:\n                yield from pattern.iff_chunks()\n            yield b\"PEND\", b\"\"", "            if pattern is not None:\n                yield from pattern.iff_chunks()\n                yield b\"PEND\", b\"\"", mention="PEND")
M("C01-M5", "C01", PROJECT, "        if self.timeline_position != 0:", "        if self.timeline_position > 0:", mention="TIME")
M("C01-M6", "C01", PROJECT, "        yield (\n            b\"SFGS\",\n            pack(\"<I\", self.receive_sync_midi | (self.receive_sync_other << 3)),\n        )\n", "", mention="SFGS")
M("C01-M7", "C01", MODULE, "pack(\"<I\", int(self.midi_in_always) + (self.midi_in_channel << 1))", "pack(\"<I\", int(self.midi_in_always) + (self.midi_in_channel << 2))", mention="SMII")
M("C01-M8", "C01", PROJECT, 'structure = "<" + "i" * len(links)', 'structure = "<" + "I" * len(links)', mention="SLNK")
M("C01-M9", "C01", RPATTERN, "    def process_PXXX(self, data):\n        (self.object.x,) = unpack(\"<i\", data)\n\n    def process_PYYY(self, data):\n        (self.object.y,) = unpack(\"<i\", data)\n\n    def process_PSYN", "    def process_PXXX(self, data):\n        (self.object.y,) = unpack(\"<i\", data)\n\n    def process_PYYY(self, data):\n        (self.object.x,) = unpack(\"<i\", data)\n\n    def process_PSYN", mention="PXXX")
M("C01-M10", "C01", PROJECT, "            yield b\"SEND\", b\"\"\n", "                yield b\"SEND\", b\"\"\n", mention="SEND")
M("C01-M11", "C01", PROJECT, 'yield b"MXOF", pack("<i", self.modules_x_offset)', 'yield b"MXOF", pack(">i", self.modules_x_offset)', mention="MXOF")
M("C01-M12", "C01", PROJECT, "        if self.restart_position != 0:", "        if self.restart_position != 1:", mention="REPS")
M("C01-M13", "C01", RMODULE, "    def process_SMIB(self, data):\n        (self.object.midi_out_bank,) = unpack(\"<i\", data)", "    def process_SMIB(self, data):\n        (self.object.midi_out_bank,) = unpack(\"<I\", data)", mention="SMIB")
M("C01-M14", "C01", RPATTERN, "        self.object.raw_data = self._raw_data\n", "", mention="PDTA")
M("C01-M15", "C01", "src/python/rv/container.py", "            self.write_to(f)\n            f.seek(0)\n            return read_sunvox_file(f)", "            self.write_to(f)\n            return self", mention="clone")
M("C01-M16", "C01", RMODULE, "        slots = self.object.in_link_slots\n", "        slots = self.object.in_links\n", mention="SLnK")
M("C01-M17", "C01", PROJECT, "                    if any(s not in (-1, 0) for s in module.in_link_slots):", "                    if any(s not in (-1, 0, 1) for s in module.in_link_slots):", mention="SLnK")
M("C01-M18", "C01", RSUNVOX, "        self.object.based_on_version = tuple(reversed(unpack(\"BBBB\", data)))", "        self.object.based_on_version = tuple(unpack(\"BBBB\", data))", mention="BVER")
M("C01-M19", "C01", MODULE, '        yield b"SCOL", pack("BBB", *self.color)\n', "", mention="SCOL")
M("C01-M20", "C01", PATTERN, '        yield b"PXXX", pack("<i", self.x)\n        yield b"PYYY", pack("<i", self.y)\n\n    def clear', '        yield b"PXXX", pack("<i", self.y)\n        yield b"PYYY", pack("<i", self.x)\n\n    def clear', mention="PXXX")
M("C01-T1", "C01", PROJECT, "                links = module.in_links\n                link_slots = module.in_link_slots\n                if len(links) > 0:\n                    structure = \"<\" + \"i\" * len(links)\n                    links = pack(structure, *links)\n                    link_slots = pack(structure, *link_slots)\n                    yield b\"SLNK\", links\n", "                srcs = module.in_links\n                link_slots = module.in_link_slots\n                if len(srcs) > 0:\n                    structure = \"<\" + \"i\" * len(srcs)\n                    links = pack(structure, *srcs)\n                    link_slots = pack(structure, *link_slots)\n                    yield b\"SLNK\", links\n", expect="T")
M("C01-T2", "C01", RMODULE, "    def process_SZZZ(self, data):\n        (self.object.layer,) = unpack(\"<I\", data)", "    def process_SZZZ(self, data):\n        (self.object.layer,) = unpack(\"<i\", data)", expect="T")
M("C01-T3", "C01", PROJECT, '        yield b"BPM ", pack("<I", self.initial_bpm)', '        fmt = "<I"\n        yield b"BPM ", pack(fmt, self.initial_bpm)', expect="T")
M("C01-T4", "C01", RSUNVOX, "    def process_SPED(self, data):\n        (self.object.initial_tpl,) = unpack(\"<I\", data)\n\n    def process_TGRD(self, data):\n        (self.object.time_grid,) = unpack(\"<I\", data)\n\n", "    def process_TGRD(self, data):\n        (self.object.time_grid,) = unpack(\"<I\", data)\n\n    def process_SPED(self, data):\n        (self.object.initial_tpl,) = unpack(\"<I\", data)\n\n", expect="T")

# ----------------------------------------------------------------------------------- C16 / C06
SAMPLER = "src/python/rv/modules/sampler.py"
M("C16-D7", "C16", SAMPLER, 'f.write(self.note_samples.bytes.ljust(128, b"\\0"))', "f.write(self.note_samples.bytes)", mention="smp_num", props=["C16", "C03"])
M("C16-M1", "C16", SAMPLER, "        # $0094 uint8_t vibrato_depth;\n        self.vibrato_depth = r.uint8()\n        # $0095 uint8_t vibrato_rate;\n        self.vibrato_rate = r.uint8()", "        # $0094 uint8_t vibrato_depth;\n        self.vibrato_rate = r.uint8()\n        # $0095 uint8_t vibrato_rate;\n        self.vibrato_depth = r.uint8()", mention="vibrato")
M("C16-M2", "C16", SAMPLER, "        self.volume_fadeout = r.uint16()", "        self.volume_fadeout = r.uint8()", mention="volume_fadeout")
M("C16-M3", "C16", SAMPLER, "                offset = 0x14 + i * 4", "                offset = 0x10 + i * 4", mention="load_chdt")
M("C16-M4", "C16", SAMPLER, "        w.uint8(sample.panning + 0x80)", "        w.uint8(sample.panning + 0x7F)", mention="panning")
M("C16-M5", "C16", SAMPLER, '        yield b"CHNM", pack("<I", i * 2 + 1)\n        yield b"CHDT", f.getvalue()\n        f.close()\n        yield b"CHNM", pack("<I", i * 2 + 2)', '        yield b"CHNM", pack("<I", i * 2)\n        yield b"CHDT", f.getvalue()\n        f.close()\n        yield b"CHNM", pack("<I", i * 2 + 1)', mention="sample_chunks")
M("C16-M6", "C16", SAMPLER, "                points.append((x, y + min_y))", "                points.append((x, y))", mention="load_chdt")
M("C16-M7", "C16", SAMPLER, "        sample.loop_sustain = bool(loop_format_flags & 4)", "        sample.loop_sustain = bool(loop_format_flags & 8)", mention="loop_sustain")
M("C16-M8", "C16", SAMPLER, "            self.Format.int16: 0x10,\n            self.Format.float32: 0x20,\n        }[sample.format]", "            self.Format.int16: 0x20,\n            self.Format.float32: 0x10,\n        }[sample.format]", mention="format")
M("C16-M9", "C16", SAMPLER, "        elif chnm == 0x103:\n            self.panning_envelope.load_chdt(chdt)\n        elif chnm == 0x104:\n            self.pitch_envelope.load_chdt(chdt)", "        elif chnm == 0x103:\n            self.pitch_envelope.load_chdt(chdt)\n        elif chnm == 0x104:\n            self.panning_envelope.load_chdt(chdt)", mention="load_chunk")
M("C16-M10", "C16", SAMPLER, "        # int8_t finetune;\n        w.int8(self.ins_finetune)", "        # int8_t finetune;\n        w.uint8(self.ins_finetune)", mention="finetune")
M("C16-M11", "C16", SAMPLER, "                self.sustain_point,\n                self.loop_start_point,\n                self.loop_end_point,\n            )\n            data += b\"\\0\\0\\0\\0\"", "                self.loop_start_point,\n                self.sustain_point,\n                self.loop_end_point,\n            )\n            data += b\"\\0\\0\\0\\0\"", mention="Envelope")
M("C16-M12", "C16", SAMPLER, "            return self.enable | self.sustain * 2 | self.loop * 4", "            return self.enable | self.sustain * 4 | self.loop * 2", mention="bitmask")
M("C16-M13", "C16", SAMPLER, "        sample.channels = self.Channels(chunk.chff & 0x08)", "        sample.channels = self.Channels(chunk.chff & 0x04)", mention="CHFF")
M("C16-M14", "C16", SAMPLER, "            for k, v in zip(self.keys(), value):", "            for k, v in zip(reversed(self.keys()), value):", mention="NoteSampleMap")
M("C16-M15", "C16", SAMPLER, "        index = (chunk.chnm - 2) // 2\n", "        index = (chunk.chnm - 1) // 2\n", expect="T")   # (2i+2-1)//2 == i: same slot, behaviour preserved
M("C16-M16", "C16", SAMPLER, "        # $001a uint16_t unused2;\n        self.unused2 = r.uint16()", "        # $001a uint16_t unused2;\n        self.unused2 = r.uint32()", mention="unused2")
M("C16-M17", "C16", SAMPLER, "        self._f.write(value.ljust(width, b\"\\0\")[:width])", "        self._f.write(value.ljust(width, b\"\\0\"))", mention="char")
M("C16-M18", "C16", SAMPLER, "            self.EffectControlEnvelope(0x105),\n            self.EffectControlEnvelope(0x106),", "            self.EffectControlEnvelope(0x106),\n            self.EffectControlEnvelope(0x105),", mention="effect")
M("C16-T1", "C16", SAMPLER, "        # uint8_t vibrato_depth;\n        w.uint8(self.vibrato_depth)", "        # uint8_t vibrato_depth;\n        depth = self.vibrato_depth\n        w.uint8(depth)", expect="T")
M("C06-D8", "C06", SAMPLER, "if not self.is_legacy and len(data) > 0x190:", "if not self.is_legacy and len(data) >= 0x190:", mention="load_instrument")
M("C06-M1", "C06", "src/python/rv/modules/multisynth.py", "    def load_chunk(self, chunk):\n        if chunk.chnm == self.options_chnm:", "    def load_chunk(self, chunk):\n        self._raw = getattr(self, \"_raw\", []) + [chunk]\n        if chunk.chnm == self.options_chnm:", mention="_raw", more=[("src/python/rv/modules/multisynth.py", "    def specialized_iff_chunks(self):\n        yield from self.nv_curve.chunks()", "    def specialized_iff_chunks(self):\n        if getattr(self, \"_raw\", None):\n            for c in self._raw:\n                yield from c.chunks()\n            return\n        yield from self.nv_curve.chunks()")])
M("C06-M2", "C06", RMODULE, "        self._load_last_chunk()\n        self.object.finalize_load()", "        self._load_last_chunk()\n        self.object._saved_header = list(self.object.iff_chunks())\n        self.object.finalize_load()", mention="_saved_header", more=[(MODULE, "        if in_project is None:\n            in_project = self.parent is not None\n", "        if in_project is None:\n            in_project = self.parent is not None\n        if getattr(self, \"_saved_header\", None):\n            yield from self._saved_header\n            return\n")])
M("C06-M3", "C06", SAMPLER, "        if sign != self.INS_SIGN:", "        if sign == self.INS_SIGN:", mention="INS_SIGN")
M("C06-M4", "C06", SAMPLER, "        if self.is_legacy:\n            for chunk in self.legacy_chunks:", "        if self.legacy_chunks:\n            for chunk in self.legacy_chunks:", mention="specialized_iff_chunks")
M("C06-M5", "C06", SAMPLER, "        if not self.is_legacy:\n            self.is_legacy = False\n            self.legacy_chunks = None", "        if not self.is_legacy:\n            self.is_legacy = True", mention="load_instrument")
M("C06-T1", "C06", SAMPLER, "if not self.is_legacy and len(data) > 0x190:", "if not self.is_legacy and len(data) >= 0x191:", expect="T")
