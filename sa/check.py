#!/venv/bin/python
"""Entry point: ``check.py <property-id> [--tier quick|thorough] [--replay path]``.

Exit 0: every obligation of the property discharged on the current /repo tree.
Exit 1: a VIOLATION line was printed (not listed as a known finding).
Exit 2: analysis inconclusive / anchor missing / internal error (never a verdict).
"""

from __future__ import annotations

import argparse
import importlib
import json
import os
import sys
import traceback
from pathlib import Path

HERE = Path(__file__).resolve().parent
sys.path.insert(0, str(HERE.parent))

from sa import model, report  # noqa: E402

ALL = [f"C{n:02d}" for n in range(1, 21)]


def run_property(prop: str, tier: str, seed: int = 0) -> int:
    mod = importlib.import_module(f"sa.rules.{prop.lower()}")
    rep = report.Report(prop, tier, mod.LEVEL, mod.EXPLANATION)
    rep.declined = list(getattr(mod, "DECLINED", []))
    rep.assumptions = list(getattr(mod, "ASSUMPTIONS", []))
    repo = None
    try:
        repo = model.Repo()
        mod.run(repo, rep, tier)
    except model.AnchorMissing as e:
        rep.error("anchor", str(e), f"anchor missing: {e}")
    except Exception as e:  # internal error: never a verdict
        tb = traceback.format_exc()
        rep.error("internal", type(e).__name__, f"{e}\n{tb}")
    consulted = repo.consulted if repo is not None else {}
    if tier == "thorough" and not any(f.status in (report.VIOLATION, report.ERROR) for f in rep.findings):
        # thorough = the same rules + the checker's own two-sided self-test for this property
        try:
            from sa import selftest
            summary = selftest.summary_for(prop)
            rep.extra["selftest"] = summary
            rep.instances["selftest_cases"] = summary["cases"]
            rep.instances["selftest_mutants_detected"] = summary["mutants_detected"]
            rep.instances["selftest_twins_silent"] = summary["twins_silent"]
            for msg in summary["failures"]:
                rep.error("selftest", msg[:80], f"checker self-test failed: {msg}")
        except Exception as e:
            rep.error("selftest", type(e).__name__, f"self-test could not run: {e}")
    return rep.finish(consulted, seed)


def main(argv=None) -> int:
    ap = argparse.ArgumentParser()
    ap.add_argument("prop")
    ap.add_argument("--tier", default=os.environ.get("VERIF_TIER", "quick"))
    ap.add_argument("--replay", default=None)
    args = ap.parse_args(argv)
    tier = args.tier if args.tier in ("quick", "thorough") else "quick"
    seed = int(os.environ.get("VERIF_SEED", "0") or 0)
    props = ALL if args.prop == "all" else [args.prop.upper()]
    if args.replay:
        data = json.loads(Path(args.replay).read_text())
        print(f"replaying {data.get('property')} {data.get('rule')} on {data.get('construct')}: "
              f"re-running the property check on the current tree")
        props = [data.get("property", props[0])]
    worst = 0
    for p in props:
        try:
            rc = run_property(p, tier, seed)
        except ModuleNotFoundError as e:
            print(f"ANALYSIS-ERROR property={p} no rule module: {e}")
            rc = 2
        if rc == 1 or (rc == 2 and worst == 0):
            worst = rc if worst != 1 else 1
    return worst


if __name__ == "__main__":
    try:
        rc = main()
    except SystemExit:
        raise
    except BaseException:
        traceback.print_exc()
        print("ANALYSIS-ERROR internal failure in check.py")
        rc = 2
    sys.exit(rc)
