"""Accepted idioms (DESIGN Appendix B): fresh copies and their depth, mutation recognisers."""

from __future__ import annotations

import ast
from typing import Optional, Tuple

from .model import norm

INF = 99

MUTATING_METHODS = {"append", "extend", "insert", "pop", "remove", "clear", "sort", "reverse", "update",
                    "setdefault", "popitem", "add", "discard", "__setitem__", "__delitem__"}


def copy_depth(e: ast.expr) -> Tuple[int, Optional[ast.expr]]:
    """(depth, source) — how deep a fresh copy `e` is of `source`.

    depth 0: alias (source = e itself); 1: new outer container; 2: rows copied too; INF: deepcopy.
    `source` is None when `e` builds a container that copies nothing (literal, constructor).
    """
    if isinstance(e, ast.Call):
        f = norm(e.func)
        if f in ("deepcopy", "copy.deepcopy") and len(e.args) in (1, 2):
            return INF, e.args[0]
        if f in ("list", "dict", "set", "sorted", "tuple", "copy.copy", "copy") and len(e.args) == 1:
            d, s = copy_depth(e.args[0])
            if isinstance(e.args[0], (ast.ListComp, ast.GeneratorExp)):
                return d, s
            return 1, e.args[0]
        if isinstance(e.func, ast.Attribute) and e.func.attr == "copy" and not e.args:
            return 1, e.func.value
        if f in ("list", "dict", "set") and not e.args:
            return INF, None
    if isinstance(e, ast.Subscript) and isinstance(e.slice, ast.Slice) and e.slice.lower is None \
            and e.slice.upper is None and e.slice.step is None:
        return 1, e.value
    if isinstance(e, (ast.ListComp, ast.GeneratorExp)) and len(e.generators) == 1:
        gen = e.generators[0]
        tv = gen.target.id if isinstance(gen.target, ast.Name) else None
        elt = e.elt
        if tv is not None:
            if isinstance(elt, ast.Name) and elt.id == tv:
                return 1, gen.iter
            d, s = copy_depth(elt)
            if s is not None and isinstance(s, ast.Name) and s.id == tv and d >= 1:
                return (1 + d if d < INF else INF), gen.iter
            # [[f(c) for c in row] for row in X]: rows rebuilt, cells are new objects of f
            if isinstance(elt, (ast.ListComp,)) and len(elt.generators) == 1 \
                    and isinstance(elt.generators[0].iter, ast.Name) and elt.generators[0].iter.id == tv:
                inner = elt.generators[0]
                iv = inner.target.id if isinstance(inner.target, ast.Name) else None
                if isinstance(elt.elt, ast.Name) and elt.elt.id == iv:
                    return 2, gen.iter
                if isinstance(elt.elt, ast.Call):
                    # x.clone() / copy(x) / Note(...) -> fresh cells
                    return 3, gen.iter
                return 2, gen.iter
        return INF, None
    if isinstance(e, (ast.List, ast.Dict, ast.Set, ast.Tuple)):
        return INF, None
    return 0, e


def store_depth(target: ast.expr) -> Tuple[int, Optional[str]]:
    """For a store target like new[a][b] or new[a][b].x: (depth, base variable name)."""
    depth = 0
    t = target
    while True:
        if isinstance(t, ast.Subscript):
            depth += 1
            t = t.value
        elif isinstance(t, ast.Attribute):
            depth += 1
            t = t.value
        else:
            break
    if isinstance(t, ast.Name):
        return depth, t.id
    return depth, None
