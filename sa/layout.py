"""Sequential record layouts (sampler): writer slots, reader slots, C-struct comments; length intervals."""

from __future__ import annotations

import ast
import copy
import re
import struct
from dataclasses import dataclass, field
from typing import Any, Dict, List, Optional, Tuple

from .model import AnchorMissing, ClassInfo, NotConst, Repo, attr_chain, norm, stmts_of, walk_no_nested

INF = 10**9
Interval = Tuple[int, int]


class Unknown(Exception):
    pass


# ------------------------------------------------------------------ struct helper classes
def struct_methods(repo: Repo, ci: ClassInfo) -> Dict[str, Tuple[str, int, Optional[bool]]]:
    """method name -> (format, width, signed) for _StructWriter / _StructReader style helpers."""
    out: Dict[str, Tuple[str, int, Optional[bool]]] = {}
    from . import inline
    from .packed import single_defs, resolve_names
    raw_methods = getattr(ci.methods, "raw", ci.methods)
    for name in list(ci.methods):
        if name.startswith("_"):
            continue
        fn = raw_methods[name] if name in raw_methods else ci.methods[name]
        fmt = None
        # private helpers (`self._write(spec, value)`) are read through; `_read` is the reader's cursor primitive and is kept
        fn = inline.normalize(repo, ci, fn, exclude=("_read",))
        defs = single_defs(fn)
        for n in walk_no_nested(fn):
            if isinstance(n, ast.Call):
                f = norm(n.func)
                if f in ("unpack", "struct.unpack") and len(n.args) == 2 and fmt is None:
                    # a reader method specialised from the cursor primitive (partialmethod(_read, "<B", 1)): the format it decodes with,
                    # and the number of bytes it advances by
                    try:
                        v = repo.fold(resolve_names(n.args[0], defs), ci=ci)
                    except NotConst:
                        v = None
                    if isinstance(v, str):
                        fmt = v
                        steps = set()
                        for b in walk_no_nested(fn):
                            if isinstance(b, ast.BinOp) and isinstance(b.op, ast.Add) and norm(b.left) == "self._index" and isinstance(b.right, ast.Constant) \
                                    and isinstance(b.right.value, int):
                                steps.add(b.right.value)
                        if steps and steps != {struct.calcsize(v)}:
                            fmt = f"!mismatch {v} length {sorted(steps)}"
                    continue
                if f in ("pack", "struct.pack", "self._read") and n.args:
                    a0 = resolve_names(n.args[0], defs)
                    # self._read(self._UINT8, default): the codec object names its format
                    if isinstance(a0, (ast.Name, ast.Attribute)):
                        try:
                            d0 = inline.definition_of(repo, ci, ci.file, a0)
                        except Exception:
                            d0 = None
                        if isinstance(d0, ast.Call) and norm(d0.func).split(".")[-1] == "Struct" and len(d0.args) == 1:
                            try:
                                v0 = repo.fold(d0.args[0], ci=ci)
                                if isinstance(v0, str):
                                    fmt = v0
                                    continue
                            except NotConst:
                                pass
                    try:
                        v = repo.fold(a0, ci=ci)
                        if isinstance(v, str):
                            fmt = v
                            if f == "self._read" and len(n.args) > 1:
                                ln = repo.fold(n.args[1], ci=ci)
                                if ln != struct.calcsize(v):
                                    fmt = f"!mismatch {v} length {ln}"
                    except NotConst:
                        pass
        if fmt and not fmt.startswith("!"):
            code = fmt.lstrip("<>=!@")
            out[name] = (fmt, struct.calcsize(fmt), code.islower() if code.lower() in "bhiq" else None)
        elif fmt:
            out[name] = (fmt, -1, None)
    return out


def raw_write_methods(repo: Repo, ci: ClassInfo) -> List[str]:
    """Public methods of a writer helper whose whole effect is `self.<stream>.write(<the parameter>)`: the bytes go out as given."""
    from . import inline
    out = []
    names = tuple(n for n in ci.methods if not n.startswith("__"))
    for name, fn in ci.methods.items():
        if name.startswith("_"):
            continue
        try:
            f2 = inline.normalize(repo, ci, fn, also=names)
        except Exception:
            continue
        params = [a.arg for a in f2.args.args if a.arg != "self"]
        body = [st for st in stmts_of(f2) if not (isinstance(st, ast.Expr) and isinstance(st.value, ast.Constant)) and not isinstance(st, ast.Pass)]
        if len(params) == 1 and len(body) == 1 and isinstance(body[0], ast.Expr) and isinstance(body[0].value, ast.Call):
            c = body[0].value
            if isinstance(c.func, ast.Attribute) and c.func.attr == "write" and norm(c.func.value).startswith("self.") and len(c.args) == 1 \
                    and isinstance(c.args[0], ast.Name) and c.args[0].id == params[0]:
                out.append(name)
    return out


def observer_methods(repo: Repo, ci: ClassInfo) -> List[str]:
    """Public methods of a writer helper that put nothing into the stream: a single `return self.<stream>.getvalue()` (or `.tell()`),
    no parameters.  A call of one is not a field of the record."""
    out = []
    for name, fn in ci.methods.items():
        if name.startswith("_") or [a.arg for a in fn.args.args if a.arg != "self"]:
            continue
        body = [st for st in stmts_of(fn) if not (isinstance(st, ast.Expr) and isinstance(st.value, ast.Constant)) and not isinstance(st, ast.Pass)]
        if len(body) == 1 and isinstance(body[0], ast.Return) and isinstance(body[0].value, ast.Call) and isinstance(body[0].value.func, ast.Attribute) \
                and body[0].value.func.attr in ("getvalue", "tell") and norm(body[0].value.func.value).startswith("self.") and not body[0].value.args:
            out.append(name)
    return out


@dataclass
class Slot:
    kind: str                 # int | char | bytes | raw
    width: Optional[int]      # bytes (None if unknown)
    signed: Optional[bool]
    expr: str                 # writer: source expression; reader: target expression
    node: ast.AST
    comment: Optional[Tuple[str, str, int, Optional[bool]]] = None   # (ctype, name, size, signed)
    default: Optional[str] = None
    method: str = ""
    width_iv: Optional[Interval] = None


CTYPES = {"uint32_t": (4, False), "int32_t": (4, True), "uint16_t": (2, False), "int16_t": (2, True),
          "uint8_t": (1, False), "int8_t": (1, True), "char": (1, None)}


def parse_struct_comment(repo: Repo, ci: ClassInfo, line: str) -> Optional[Tuple[str, str, int, Optional[bool]]]:
    m = re.match(r"^\s*#\s*(?:\$[0-9a-fA-F]+\s+)?(\w+)\s+(\w+)\s*(?:\[\s*([^\]]+?)\s*\])?\s*;\s*(?:[^;]*)$", line)     # (a remark may follow the `;`)
    if not m:
        return None
    ctype, name, count = m.groups()
    if ctype not in CTYPES:
        return None
    n = 1
    if count is not None:
        try:
            n = repo.fold(ast.parse(count.replace("XI_ENV_POINTS", "self.XI_ENV_POINTS"), mode="eval").body, ci=ci)
        except (NotConst, SyntaxError):
            return None
    size, signed = CTYPES[ctype]
    return ctype, name, size * n, signed


def preceding_comment(repo: Repo, ci: ClassInfo, node: ast.AST) -> Optional[Tuple[str, str, int, Optional[bool]]]:
    got = _comment_at(repo, ci, node)
    if got is None and isinstance(node, ast.Call):
        # a call assembled from a table / generator of fields: the declaration comment sits with the field's value
        for a in node.args[:1]:
            for sub in ast.walk(a):
                if hasattr(sub, "_src_lineno") and getattr(sub, "_src_lineno") != getattr(node, "_src_lineno", None):
                    got = _comment_at(repo, ci, sub)
                    break
            if got is not None:
                break
    return got


def _comment_at(repo: Repo, ci: ClassInfo, node: ast.AST) -> Optional[Tuple[str, str, int, Optional[bool]]]:
    if getattr(node, "_synthetic", False):
        return None             # produced by inlining / unrolling: the comment above the original line describes something else
    lines = ci.file.text.splitlines()
    # a trailing comment on the statement's own line:  w.uint32(x)  # uint32_t unused1;
    j = getattr(node, "_src_lineno", getattr(node, "lineno", 0)) - 1
    if 0 <= j < len(lines) and "#" in lines[j] and not lines[j].strip().startswith("#"):
        tail = lines[j][lines[j].index("#"):]
        m = re.match(r"^(#\s*\w+\s+\w+\s*(?:\[[^\]]+\])?\s*;)", tail)
        if m:
            got = parse_struct_comment(repo, ci, m.group(1))
            if got is not None:
                return got
    i = getattr(node, "_src_lineno", node.lineno) - 2
    while i >= 0 and lines[i].strip() == "":
        i -= 1
    # one plain local binding may stand between the declaration comment and the write (`data = self.x.bytes` / `f.write(data[:96])`)
    if i >= 0 and re.match(r"^\s*[A-Za-z_]\w*\s*=\s*[^=].*$", lines[i]) and ".write(" not in lines[i] and not re.search(r"\bw\.\w+\(", lines[i]):
        i -= 1
        while i >= 0 and lines[i].strip() == "":
            i -= 1
    if i >= 0 and lines[i].strip().startswith("#"):
        return parse_struct_comment(repo, ci, lines[i])
    return None


def writer_slots(repo: Repo, ci: ClassInfo, fn: ast.FunctionDef, helper: ClassInfo, length_of) -> List[Slot]:
    """Slots written by a function using `w = _StructWriter(f)` and `f.write(...)`, in source order."""
    from . import inline
    fn = inline.normalize(repo, ci, fn)
    meths = struct_methods(repo, helper)
    raws = raw_write_methods(repo, helper)
    observers = observer_methods(repo, helper)
    wvar = fvar = None
    for n in walk_no_nested(fn):
        if isinstance(n, ast.Assign) and isinstance(n.value, ast.Call) and len(n.targets) == 1 and isinstance(n.targets[0], ast.Name):
            if norm(n.value.func) == helper.name:
                wvar = n.targets[0].id
                if n.value.args:
                    fvar = norm(n.value.args[0])
    if wvar is None:
        raise AnchorMissing(f"{helper.name} instance in {fn.name}")
    slots: List[Slot] = []
    calls = [n for n in walk_no_nested(fn) if isinstance(n, ast.Call) and isinstance(n.func, ast.Attribute)]
    calls.sort(key=lambda c: (inline.pos(c), c.col_offset))
    # locals that name a slot's value (`smp_num = self.note_samples.bytes[:96]; f.write(smp_num)`) are read as what they name
    from .packed import single_defs, resolve_names
    ldefs = {k: v for k, v in single_defs(fn).items() if k not in (wvar, fvar) and (
        isinstance(v, (ast.Subscript, ast.BinOp)) or (isinstance(v, ast.Call) and isinstance(v.func, ast.Attribute) and v.func.attr in ("ljust", "rjust")))}
    ldefs.pop(wvar, None)
    if fvar:
        ldefs.pop(fvar, None)
    # a local that abbreviates an attribute chain (`data = self.note_samples.bytes`) is read through where it is sliced / padded
    # (`data[:96]`, `data.ljust(128, …)`); a bare `f.write(vol)`-style name is left alone (those name the envelope objects)
    adefs = {k: v for k, v in single_defs(fn).items() if k not in (wvar, fvar) and isinstance(v, ast.Attribute)}
    for c in calls:
        if (norm(c.func.value) == wvar or (fvar is not None and norm(c.func.value) == fvar and c.func.attr == "write")) and c.args \
                and not isinstance(c.args[0], ast.Name) and isinstance(c.args[0], (ast.Subscript, ast.Call)) \
                and any(isinstance(x, ast.Name) and x.id in adefs for x in ast.walk(c.args[0])):
            new_arg = resolve_names(c.args[0], adefs)
            ast.copy_location(new_arg, c.args[0])
            for sub in ast.walk(new_arg):
                if not hasattr(sub, "lineno"):
                    ast.copy_location(sub, c.args[0])
            c.args[0] = new_arg
    for c in calls:
        if (norm(c.func.value) == wvar or (fvar is not None and norm(c.func.value) == fvar and c.func.attr == "write")) and c.args \
                and any(isinstance(x, ast.Name) and x.id in ldefs for x in ast.walk(c.args[0])):
            new_arg = resolve_names(c.args[0], ldefs)
            ast.copy_location(new_arg, c.args[0])
            for sub in ast.walk(new_arg):
                if not hasattr(sub, "lineno"):
                    ast.copy_location(sub, c.args[0])
            c.args[0] = new_arg
    for c in calls:
        recv = norm(c.func.value)
        if recv == wvar:
            m = c.func.attr
            if m == "char":
                try:
                    wdt = repo.fold(c.args[1], ci=ci)
                except (NotConst, IndexError):
                    wdt = None
                slots.append(Slot("char", wdt, None, norm(c.args[0]), c, preceding_comment(repo, ci, c), method=m))
            elif m in meths:
                fmt, wdt, sg = meths[m]
                slots.append(Slot("int", wdt, sg, norm(c.args[0]) if c.args else "", c, preceding_comment(repo, ci, c), method=m))
            elif m in raws and c.args:
                try:
                    iv = length_of(c.args[0])
                except Unknown:
                    iv = None
                wdt = iv[0] if iv and iv[0] == iv[1] else None
                slots.append(Slot("raw", wdt, None, norm(c.args[0]), c, preceding_comment(repo, ci, c), method="write", width_iv=iv))
            elif m in observers:
                continue
            else:
                slots.append(Slot("unknown", None, None, norm(c), c, preceding_comment(repo, ci, c), method=m))
        elif fvar is not None and recv == fvar and c.func.attr == "write" and c.args:
            try:
                iv = length_of(c.args[0])
            except Unknown as e:
                iv = None
            wdt = iv[0] if iv and iv[0] == iv[1] else None
            slots.append(Slot("raw", wdt, None, norm(c.args[0]), c, preceding_comment(repo, ci, c), method="write", width_iv=iv))
    return slots


def reader_slots(repo: Repo, ci: ClassInfo, fn: ast.FunctionDef, helper: ClassInfo) -> List[Slot]:
    from . import inline
    fn = inline.normalize(repo, ci, fn)
    meths = struct_methods(repo, helper)
    rvar = None
    for n in walk_no_nested(fn):
        if isinstance(n, ast.Assign) and isinstance(n.value, ast.Call) and len(n.targets) == 1 and isinstance(n.targets[0], ast.Name) \
                and norm(n.value.func) == helper.name:
            rvar = n.targets[0].id
    if rvar is None:
        raise AnchorMissing(f"{helper.name} instance in {fn.name}")
    slots: List[Slot] = []
    stmts = [n for n in walk_no_nested(fn) if isinstance(n, (ast.Assign, ast.Expr))]
    stmts.sort(key=lambda s: (inline.pos(s), s.col_offset))
    for st in stmts:
        calls = [c for c in ast.walk(st.value) if isinstance(c, ast.Call) and isinstance(c.func, ast.Attribute)
                 and norm(c.func.value) == rvar]
        for c in calls:
            m = c.func.attr
            target = norm(st.targets[0]) if isinstance(st, ast.Assign) else ""
            dflt = norm(c.args[0]) if (m in meths and c.args) else None
            if m in ("bytes", "char", "skip"):
                try:
                    wdt = repo.fold(c.args[0], ci=ci)
                except (NotConst, IndexError):
                    wdt = None
                slots.append(Slot("char" if m == "char" else "bytes", wdt, None, target, c, preceding_comment(repo, ci, st), method=m))
            elif m in meths:
                fmt, wdt, sg = meths[m]
                slots.append(Slot("int", wdt, sg, target, c, preceding_comment(repo, ci, st), default=dflt, method=m))
            else:
                slots.append(Slot("unknown", None, None, target, c, preceding_comment(repo, ci, st), method=m))
    return slots


# ------------------------------------------------------------------ list / bytes length intervals
def length_witness(le: "LenEval", e: ast.expr) -> Optional[Tuple[str, int, int, int, int]]:
    """When the length of `e` was derived as a proper interval: two concrete lengths of one free list (0 and 40 elements) for which
    `e` has two different exact lengths — (free list, n1, len1, n2, len2) — i.e. proof that the field's width really varies.
    None when no such pair is found (the interval may just be imprecise)."""
    free = sorted(le.free)
    for name in free:
        got = []
        for n in (0, 40):
            le.assume = {name: n}
            try:
                iv = le.of(e)
            except Unknown:
                iv = None
            finally:
                le.assume = {}
            if iv is None or iv[0] != iv[1]:
                got = []
                break
            got.append((n, iv[0]))
        if len(got) == 2 and got[0][1] != got[1][1]:
            return (name, got[0][0], got[0][1], got[1][0], got[1][1])
    return None


class LenEval:
    """Length intervals of list/bytes-valued expressions, following property getters on known receivers."""

    def __init__(self, repo: Repo, ci: ClassInfo, receivers: Dict[str, ClassInfo]):
        self.repo = repo
        self.ci = ci
        self.receivers = receivers         # text of receiver expression -> its class
        self.depth = 0
        self.assume: Dict[str, int] = {}   # text of a list-valued expression -> the length it is taken to have (witness search)
        self.free: set = set()             # list-valued expressions whose length was taken as "any" ([0, INF))

    def of(self, e: ast.expr, ci: Optional[ClassInfo] = None, env: Optional[Dict[str, Interval]] = None) -> Interval:
        ci = ci or self.ci
        env = env or {}
        self.depth += 1
        try:
            if self.depth > 40:
                raise Unknown("too deep")
            return self._of(e, ci, env)
        finally:
            self.depth -= 1

    def _of(self, e, ci, env) -> Interval:
        repo = self.repo
        try:
            v = repo.fold(e, ci=ci)
            if isinstance(v, (bytes, str, list, tuple, dict)):
                return (len(v), len(v))
        except NotConst:
            pass
        if isinstance(e, ast.Name) and e.id in env:
            return env[e.id]
        if isinstance(e, ast.Attribute):
            recv_txt = norm(e.value)
            rc = self.receivers.get(recv_txt) or (ci if recv_txt == "self" else None)
            if rc is not None:
                r = repo.lookup(rc, e.attr)
                if r and r[1] == "property" and r[2][0] is not None:
                    return self.of_function(r[2][0], rc)
                if r and r[1] == "assign":
                    return self.of(r[2], r[0])
            raise Unknown(norm(e))
        if isinstance(e, ast.Subscript) and isinstance(e.slice, ast.Slice) and e.slice.step is None:
            lo, hi = self.of(e.value, ci, env)
            a = repo.fold(e.slice.lower, ci=ci) if e.slice.lower is not None else 0
            b = repo.fold(e.slice.upper, ci=ci) if e.slice.upper is not None else None
            if not isinstance(a, int) or a < 0 or (b is not None and (not isinstance(b, int) or b < 0)):
                raise Unknown("slice")
            if b is None:
                return (max(0, lo - a), max(0, hi - a))
            w = max(0, b - a)
            return (min(max(0, lo - a), w), min(max(0, hi - a), w))
        if isinstance(e, ast.BinOp) and isinstance(e.op, ast.Add) and isinstance(e.left, ast.Subscript) and isinstance(e.left.slice, ast.Slice) \
                and e.left.slice.lower is None and e.left.slice.step is None and e.left.slice.upper is not None:
            # X[:K] + [c] * max(K - len(X), 0): cut to K, then filled up to K: exactly K elements
            padk = self._pad_amount(e.right, norm(e.left.value), ci)
            try:
                cutk = repo.fold(e.left.slice.upper, ci=ci)
            except NotConst:
                cutk = None
            if padk is not None and cutk == padk:
                return (padk, padk)
        if isinstance(e, ast.BinOp) and isinstance(e.op, ast.Add):
            pad = self._pad_amount(e.right, norm(e.left), ci)
            if pad is not None:
                lo, hi = self.of(e.left, ci, env)           # X + [c] * (K - len(X))  has length max(len(X), K)
                return (max(lo, pad), max(hi, pad))
            a, b = self.of(e.left, ci, env), self.of(e.right, ci, env)
            return (a[0] + b[0], min(INF, a[1] + b[1]))
        if isinstance(e, ast.BinOp) and isinstance(e.op, ast.Mult):
            for seq, cnt in ((e.left, e.right), (e.right, e.left)):
                if isinstance(seq, (ast.List, ast.Tuple, ast.Constant)):
                    try:
                        n = repo.fold(cnt, ci=ci)
                        base = self.of(seq, ci, env)
                        if isinstance(n, int):
                            return (base[0] * max(0, n), base[1] * max(0, n))
                    except NotConst:
                        pass
        if isinstance(e, (ast.List, ast.Tuple)) and not any(isinstance(x, ast.Starred) for x in e.elts):
            return (len(e.elts), len(e.elts))
        if isinstance(e, (ast.ListComp, ast.GeneratorExp)) and len(e.generators) == 2 and not e.generators[0].ifs and not e.generators[1].ifs \
                and isinstance(e.generators[1].iter, (ast.Tuple, ast.List)) and not any(isinstance(x, ast.Starred) for x in e.generators[1].iter.elts):
            # [v for a, b in XS for v in (a, b')]: a fixed number of elements per element of XS
            lo, hi = self.of(e.generators[0].iter, ci, env)
            k = len(e.generators[1].iter.elts)
            return (lo * k, min(INF, hi * k) if hi != INF else INF)
        if isinstance(e, (ast.ListComp, ast.GeneratorExp)) and len(e.generators) == 1:
            g = e.generators[0]
            if norm(g.iter) in self.assume and not g.ifs:
                return (self.assume[norm(g.iter)], self.assume[norm(g.iter)])
            try:
                lo, hi = self.of(g.iter, ci, env)
            except Unknown:
                lo, hi = 0, INF           # a list of unknown length
                self.free.add(norm(g.iter))
            return (0 if g.ifs else lo, hi)
        if isinstance(e, ast.Call):
            f = norm(e.func)
            if f in ("list", "tuple", "bytes", "sorted", "reversed", "iter") and len(e.args) == 1:
                return self.of(e.args[0], ci, env)
            if f == "zip":
                ivs = [self.of(a, ci, env) for a in e.args]
                return (min(i[0] for i in ivs), min(i[1] for i in ivs))
            if f in ("chain.from_iterable", "itertools.chain.from_iterable") and len(e.args) == 1 \
                    and isinstance(e.args[0], ast.Call) and norm(e.args[0].func) == "zip":
                lo, hi = self.of(e.args[0], ci, env)
                k = len(e.args[0].args)
                return (lo * k, min(INF, hi * k))
            if f == "range" and 1 <= len(e.args) <= 2:
                try:
                    a = [repo.fold(x, ci=ci) for x in e.args]
                    n = len(range(*a))
                    return (n, n)
                except NotConst:
                    raise Unknown("range")
            if f in ("pack", "struct.pack") and e.args:
                fm = e.args[0]
                try:
                    s = repo.fold(fm, ci=ci)
                    n = struct.calcsize(s)
                    return (n, n)
                except NotConst:
                    pass
                from . import codec
                pf = codec.parse_fmt(repo, ci, fm)
                if pf is not None and pf.variable and pf.count:
                    try:
                        ce = ast.parse(pf.count, mode="eval").body
                    except SyntaxError:
                        ce = None
                    if isinstance(ce, ast.Call) and norm(ce.func) == "len" and len(ce.args) == 1:
                        lo, hi = self.of(ce.args[0], ci, env)
                        sz = struct.calcsize((pf.order or "<") + pf.codes)
                        return (lo * sz, min(INF, hi * sz))
                # "<" + "H" * len(values)
                if isinstance(fm, ast.BinOp) and isinstance(fm.op, ast.Add) and isinstance(fm.right, ast.BinOp) \
                        and isinstance(fm.right.op, ast.Mult):
                    code = repo.fold(fm.right.left, ci=ci)
                    cnt = fm.right.right
                    if isinstance(cnt, ast.Call) and norm(cnt.func) == "len":
                        lo, hi = self.of(cnt.args[0], ci, env)
                        sz = struct.calcsize("<" + code)
                        return (lo * sz, min(INF, hi * sz))
                raise Unknown(norm(e))
            if isinstance(e.func, ast.Attribute):
                if e.func.attr in ("values", "keys", "items") and not e.args:
                    return self.of(e.func.value, ci, env)
                if e.func.attr in ("ljust", "rjust") and e.args:
                    try:
                        lo, hi = self.of(e.func.value, ci, env)
                    except Unknown:
                        lo, hi = 0, INF           # whatever is padded, the result is at least the pad width long
                    n = repo.fold(e.args[0], ci=ci)
                    return (max(lo, n), max(hi, n))
                if e.func.attr in ("copy",) and not e.args:
                    return self.of(e.func.value, ci, env)
                if e.func.attr == "join" and isinstance(e.func.value, ast.Constant) and e.func.value.value == b"" and len(e.args) == 1 \
                        and isinstance(e.args[0], (ast.GeneratorExp, ast.ListComp)) and len(e.args[0].generators) == 1 \
                        and not e.args[0].generators[0].ifs:
                    # b"".join(pack(F, …) for … in XS): one fixed-size piece per element of XS
                    g0 = e.args[0].generators[0]
                    tnames = {n.id for n in ast.walk(g0.target) if isinstance(n, ast.Name)}
                    plo, phi = self.of(e.args[0].elt, ci, {k: v for k, v in env.items() if k not in tnames})
                    if plo == phi:
                        lo, hi = self.of(g0.iter, ci, env)
                        return (lo * plo, min(INF, hi * plo) if hi != INF else INF)
                if e.func.attr == "getvalue":
                    raise Unknown("buffer")
        if isinstance(e, ast.Name) and e.id == "self":
            # a dict/list subclass instance: size from its constructor
            return self.container_size(ci)
        raise Unknown(norm(e))

    def _pad_amount(self, e: ast.expr, target: str, ci) -> Optional[int]:
        """K if `e` is `[c] * (K - len(<target>))`, `repeat(c, max(0, K - len(<target>)))` or the like."""
        cnt = None
        if isinstance(e, ast.BinOp) and isinstance(e.op, ast.Mult):
            for seq, c in ((e.left, e.right), (e.right, e.left)):
                if isinstance(seq, (ast.List, ast.Tuple)) and len(seq.elts) == 1:
                    cnt = c
                if isinstance(seq, ast.Constant) and isinstance(seq.value, (bytes, str)) and len(seq.value) == 1:
                    cnt = c
        if isinstance(e, ast.Call) and norm(e.func).split(".")[-1] == "repeat" and len(e.args) == 2:
            cnt = e.args[1]
        if cnt is None:
            return None
        if isinstance(cnt, ast.Call) and norm(cnt.func) == "max" and len(cnt.args) == 2:
            zero = [a for a in cnt.args if isinstance(a, ast.Constant) and a.value == 0]
            rest = [a for a in cnt.args if not (isinstance(a, ast.Constant) and a.value == 0)]
            if len(zero) == 1 and len(rest) == 1:
                cnt = rest[0]
        if isinstance(cnt, ast.BinOp) and isinstance(cnt.op, ast.Sub) and isinstance(cnt.right, ast.Call) and norm(cnt.right.func) == "len" \
                and len(cnt.right.args) == 1 and norm(cnt.right.args[0]) == target:
            try:
                k = self.repo.fold(cnt.left, ci=ci)
            except NotConst:
                return None
            return k if isinstance(k, int) and k >= 0 else None
        return None

    def container_size(self, ci: ClassInfo) -> Interval:
        """Size of a dict subclass whose __init__ calls super().__init__(<genexp over range(a, b)>)."""
        init = ci.methods.get("__init__")
        if init is None:
            raise Unknown(f"{ci.qualname}.__init__")
        from .packed import single_defs, resolve_names
        idefs = single_defs(init)
        for n in walk_no_nested(init):
            if isinstance(n, ast.Call) and isinstance(n.func, ast.Attribute) and n.func.attr == "__init__" and n.args:
                a = resolve_names(n.args[0], idefs)
                if isinstance(a, (ast.GeneratorExp, ast.ListComp)):
                    return self.of(a, ci, {})
                # dict.fromkeys(map(KEY, range(a, b)), default): one entry per element of the range (keys distinct: KEY is an enum look-up)
                if isinstance(a, ast.Call) and norm(a.func) == "dict.fromkeys" and a.args:
                    k = a.args[0]
                    while isinstance(k, ast.Call) and norm(k.func) in ("map",) and len(k.args) == 2:
                        k = k.args[1]
                    try:
                        v = self.repo.fold(k, ci=ci)
                        return (len(v), len(v))
                    except Exception:
                        return self.of(k, ci, {})
        raise Unknown(f"{ci.qualname} size")

    def of_function(self, fn: ast.FunctionDef, ci: ClassInfo) -> Interval:
        """Length interval of the value returned by a small getter (straight-line + pad loops)."""
        from . import inline
        try:
            fn = inline.normalize(self.repo, ci, fn)           # named sizes (class / module constants, once-bound integer locals) read as values
        except Exception:
            fn = inline.flatten(self.repo, ci, fn)
        # locals bound once to an integer constant are read as that constant
        consts: Dict[str, ast.expr] = {}
        cnt: Dict[str, int] = {}
        for n in walk_no_nested(fn):
            if isinstance(n, ast.Name) and isinstance(n.ctx, ast.Store):
                cnt[n.id] = cnt.get(n.id, 0) + 1
        for n in walk_no_nested(fn):
            if isinstance(n, ast.Assign) and len(n.targets) == 1 and isinstance(n.targets[0], ast.Name) and cnt.get(n.targets[0].id) == 1 \
                    and isinstance(n.value, ast.Constant) and isinstance(n.value.value, int):
                consts[n.targets[0].id] = n.value
            elif isinstance(n, ast.Assign) and len(n.targets) == 1 and isinstance(n.targets[0], ast.Name) and cnt.get(n.targets[0].id) == 1 \
                    and isinstance(n.value, (ast.Attribute, ast.Name)):
                # slots = Sampler.XI_ENV_POINTS: a named integer constant of the package
                try:
                    v_ = self.repo.fold(n.value, ci=ci)
                except Exception:
                    v_ = None
                if isinstance(v_, int) and not isinstance(v_, bool):
                    consts[n.targets[0].id] = ast.Constant(value=v_)
        if consts:
            fn = inline._Rename(dict(consts)).visit(fn)
        # once-bound locals that name an integer expression over lengths (`missing = K - len(values)`) are written at their uses
        from .packed import single_defs as _sd1
        int_locals = {k_: v_ for k_, v_ in _sd1(fn).items() if isinstance(v_, ast.BinOp) and isinstance(v_.op, (ast.Sub, ast.Add, ast.Mult))
                      and any(isinstance(x, ast.Call) and norm(x.func) == "len" for x in ast.walk(v_))}     # incl. `padding = [0] * max(0, K - len(v))`
        if int_locals:
            fn = copy.deepcopy(fn)
            fn.body = [st for st in fn.body if not (isinstance(st, ast.Assign) and len(st.targets) == 1 and isinstance(st.targets[0], ast.Name)
                                                    and st.targets[0].id in int_locals)]
            fn = inline._Rename({k_: v_ for k_, v_ in int_locals.items()}).visit(fn)
            ast.fix_missing_locations(fn)
        env: Dict[str, Interval] = {}
        result: Optional[Interval] = None
        for st in stmts_of(fn):
            if isinstance(st, ast.Assign) and len(st.targets) == 1 and isinstance(st.targets[0], ast.Constant):
                continue          # the substituted constant definition itself
            # v.extend(<padding up to K>) / v += <padding up to K>
            padded = None
            if isinstance(st, ast.Expr) and isinstance(st.value, ast.Call) and isinstance(st.value.func, ast.Attribute) \
                    and st.value.func.attr == "extend" and isinstance(st.value.func.value, ast.Name) and len(st.value.args) == 1:
                padded = (st.value.func.value.id, st.value.args[0])
            if isinstance(st, ast.AugAssign) and isinstance(st.op, ast.Add) and isinstance(st.target, ast.Name):
                padded = (st.target.id, st.value)
            if padded is not None and padded[0] in env:
                k = self._pad_amount(padded[1], padded[0], ci)
                lo, hi = env[padded[0]]
                if k is not None:
                    env[padded[0]] = (max(lo, k), max(hi, k))
                    continue
                try:
                    a = self.of(padded[1], ci, env)
                    env[padded[0]] = (lo + a[0], min(INF, hi + a[1]))
                    continue
                except Unknown:
                    raise Unknown("extension of unknown length")
            # n = K - len(v);  if n > 0: v.extend([c] * n)      (padding written with its own guard: the same as the unguarded form)
            if isinstance(st, ast.If) and not st.orelse and len(st.body) == 1 and isinstance(st.body[0], ast.Expr) and isinstance(st.body[0].value, ast.Call) \
                    and isinstance(st.body[0].value.func, ast.Attribute) and st.body[0].value.func.attr == "extend" \
                    and isinstance(st.body[0].value.func.value, ast.Name) and len(st.body[0].value.args) == 1 and st.body[0].value.func.value.id in env:
                from .packed import single_defs, resolve_names
                sd = {k_: v_ for k_, v_ in single_defs(fn).items() if isinstance(v_, ast.BinOp)}
                v = st.body[0].value.func.value.id
                arg = resolve_names(st.body[0].value.args[0], sd)
                k = self._pad_amount(arg, v, ci)
                t = resolve_names(st.test, sd)
                guard_ok = False
                if k is not None and isinstance(t, ast.Compare) and len(t.ops) == 1:
                    tt = norm(t).replace(" ", "")
                    guard_ok = tt in (f"{k}-len({v})>0", f"{k}-len({v})>=1", f"len({v})<{k}", f"{k}>len({v})", f"0<{k}-len({v})")
                if k is not None and guard_ok:
                    lo, hi = env[v]
                    env[v] = (max(lo, k), max(hi, k))
                    continue
            # for … in ITER: v += [a, b] / v.append(x) / v.extend([a, b])
            if isinstance(st, ast.For) and not st.orelse and len(st.body) == 1:
                b = st.body[0]
                acc = None
                if isinstance(b, ast.AugAssign) and isinstance(b.op, ast.Add) and isinstance(b.target, ast.Name) and isinstance(b.value, (ast.List, ast.Tuple)):
                    acc = (b.target.id, len(b.value.elts))
                elif isinstance(b, ast.Expr) and isinstance(b.value, ast.Call) and isinstance(b.value.func, ast.Attribute) \
                        and isinstance(b.value.func.value, ast.Name) and len(b.value.args) == 1:
                    if b.value.func.attr == "append":
                        acc = (b.value.func.value.id, 1)
                    elif b.value.func.attr == "extend" and isinstance(b.value.args[0], (ast.List, ast.Tuple)):
                        acc = (b.value.func.value.id, len(b.value.args[0].elts))
                if acc is not None and acc[0] in env:
                    try:
                        ilo, ihi = self.of(st.iter, ci, env)
                    except Unknown:
                        raise Unknown("loop iterable of unknown length")
                    lo, hi = env[acc[0]]
                    env[acc[0]] = (lo + acc[1] * ilo, min(INF, hi + acc[1] * ihi))
                    continue
            if isinstance(st, ast.Assign) and len(st.targets) == 1 and isinstance(st.targets[0], ast.Name):
                try:
                    env[st.targets[0].id] = self.of(st.value, ci, env)
                except Unknown:
                    env[st.targets[0].id] = (0, INF)
            elif isinstance(st, ast.While):
                # while len(v) < K: v.append(x)   ⇒ len(v) ≥ K afterwards
                t = st.test
                if isinstance(t, ast.Compare) and len(t.ops) == 1 and isinstance(t.ops[0], ast.Lt) \
                        and isinstance(t.left, ast.Call) and norm(t.left.func) == "len" and isinstance(t.left.args[0], ast.Name):
                    v = t.left.args[0].id
                    try:
                        k = self.repo.fold(t.comparators[0], ci=ci)
                    except NotConst:
                        raise Unknown("pad bound")
                    body_ok = len(st.body) == 1 and isinstance(st.body[0], ast.Expr) and isinstance(st.body[0].value, ast.Call) \
                        and norm(st.body[0].value.func) == f"{v}.append"
                    if body_ok and v in env:
                        lo, hi = env[v]
                        env[v] = (max(lo, k), max(hi, k))
                        continue
                raise Unknown("loop in getter")
            elif isinstance(st, ast.Return) and st.value is not None:
                result = self.of(st.value, ci, env)
                break
            elif isinstance(st, ast.Expr) and isinstance(st.value, ast.Constant):
                continue
            elif isinstance(st, ast.Pass):
                continue
            elif isinstance(st, ast.Assign) and len(st.targets) == 1 and isinstance(st.targets[0], ast.Subscript) and isinstance(st.targets[0].value, ast.Name):
                # v[i] = x / v[a::k] = xs keep the length of v (an extended slice must be given as many items as it has);
                # v[a:b] = xs may change it
                t_ = st.targets[0]
                if isinstance(t_.slice, ast.Slice) and t_.slice.step is None and t_.value.id in env:
                    env[t_.value.id] = (0, INF)
                continue
            else:
                raise Unknown(f"statement {type(st).__name__} in getter {fn.name}")
        if result is None:
            raise Unknown(f"no return in {fn.name}")
        return result
