"""Byte-length interval evaluation of bytes-valued expressions (no execution)."""

from __future__ import annotations

import ast
import struct
from typing import Dict, Optional, Tuple

from .model import ClassInfo, NotConst, Repo, norm

INF = 10**9
Interval = Tuple[int, int]


class Unknown(Exception):
    pass


def length(repo: Repo, ci: Optional[ClassInfo], e: ast.expr, env: Optional[Dict[str, ast.expr]] = None,
           hints: Optional[Dict[str, Interval]] = None, depth: int = 0) -> Tuple[str, Interval]:
    """('bytes'|'str', (lo, hi)).  For 'str' the interval bounds the UTF-8 encoded length."""
    env = env or {}
    hints = hints or {}
    if depth > 30:
        raise Unknown("too deep")
    rec = lambda x: length(repo, ci, x, env, hints, depth + 1)
    key = norm(e)
    if key in hints:
        return "bytes", hints[key]
    try:
        if any(isinstance(n, ast.Attribute) and isinstance(n.value, ast.Name) and n.value.id == "self" and not n.attr.isupper()
               for n in ast.walk(e)):
            raise NotConst("instance state")      # self.<attr> is a run-time value, not its class-level default
        v = repo.fold(e, ci=ci)
        if isinstance(v, (bytes, bytearray)):
            return "bytes", (len(v), len(v))
        if isinstance(v, str):
            n = len(v.encode("utf8"))
            return "str", (n, n)
    except NotConst:
        pass
    if isinstance(e, ast.Name) and e.id in env:
        return rec(env[e.id])
    if isinstance(e, ast.BinOp) and isinstance(e.op, ast.Add):
        ka, a = rec(e.left)
        kb, b = rec(e.right)
        return ka, (a[0] + b[0], min(INF, a[1] + b[1]))
    if isinstance(e, ast.Subscript) and isinstance(e.slice, ast.Slice) and e.slice.step is None:
        k, (lo, hi) = rec(e.value)
        lo_i = repo.fold(e.slice.lower, ci=ci) if e.slice.lower is not None else 0
        hi_i = repo.fold(e.slice.upper, ci=ci) if e.slice.upper is not None else None
        if not isinstance(lo_i, int) or lo_i < 0 or (hi_i is not None and (not isinstance(hi_i, int) or hi_i < 0)):
            raise Unknown("slice bounds")
        if k == "str":
            # slicing text by characters: each character encodes to 1..4 bytes
            if hi_i is None:
                return "str", (0, hi)
            return "str", (0, min(hi, 4 * max(0, hi_i - lo_i)))
        if hi_i is None:
            return k, (max(0, lo - lo_i), max(0, hi - lo_i))
        w = max(0, hi_i - lo_i)
        return k, (min(max(0, lo - lo_i), w), min(max(0, hi - lo_i), w))
    if isinstance(e, ast.Call):
        f = e.func
        if isinstance(f, ast.Attribute):
            if f.attr == "encode":
                k, iv = rec_text(repo, ci, f.value, env, hints, depth)
                return "bytes", iv
            if f.attr == "decode":
                k, (lo, hi) = rec(f.value)
                modes = [a.value for a in e.args[1:] if isinstance(a, ast.Constant)] + \
                        [kw.value.value for kw in e.keywords if kw.arg == "errors" and isinstance(kw.value, ast.Constant)]
                if "replace" in modes:
                    return "str", (0, 3 * hi if hi < INF else INF)
                return "str", (0, hi)
            if f.attr in ("ljust", "rjust", "center") and e.args:
                k, (lo, hi) = rec(f.value)
                n = repo.fold(e.args[0], ci=ci)
                if not isinstance(n, int):
                    raise Unknown("pad width")
                if len(e.args) > 1:
                    fk, fl = rec(e.args[1])
                    if fl != (1, 1):
                        raise Unknown("fill char")
                return k, (max(lo, n), max(hi, n))
            if f.attr in ("rstrip", "strip", "lstrip"):
                k, (lo, hi) = rec(f.value)
                return k, (0, hi)
            if f.attr == "getvalue":
                raise Unknown("buffer contents")
        name = norm(f)
        if name in ("pack", "struct.pack") and e.args:
            fmt = repo.fold(e.args[0], ci=ci)
            n = struct.calcsize(fmt)
            return "bytes", (n, n)
        if name == "bytes" and len(e.args) == 1:
            raise Unknown("bytes(iterable)")
    raise Unknown(norm(e))


def rec_text(repo, ci, e, env, hints, depth) -> Tuple[str, Interval]:
    """Encoded-length interval of a text expression."""
    try:
        k, iv = length(repo, ci, e, env, hints, depth + 1)
        if k == "str":
            return k, iv
    except Unknown:
        pass
    return "str", (0, INF)
