"""Members that a class receives from code instead of from a `def` in its body.

Three shapes are read (all of them leave the member's body visible in the source, so it can be written out):

* ``process_SFFF = _scalar_chunk("<I", "flags")`` in a class body, where the module-level factory defines an inner
  function (or two, wrapped in ``property(fget, fset)``) and returns it;
* ``uint8 = partialmethod(_number, "B")`` in a class body;
* a module-level loop over a constant table that installs such products with ``setattr(Class, f"process_{tag}", …)``.

The product is instantiated by substituting the factory's parameters (and its once-assigned locals) in a copy of the inner
function; the copy is registered in the class model exactly like a written method, marked ``_synthetic``.  Anything that
does not fit is left alone (the rules then see no such member and say so)."""

from __future__ import annotations

import ast
import copy
from typing import Dict, List, Optional, Tuple

from .model import ClassInfo, Repo, SourceFile, norm


def _module_functions(sf: SourceFile) -> Dict[str, ast.FunctionDef]:
    return {n.name: n for n in sf.tree.body if isinstance(n, ast.FunctionDef)}


def _module_assigns(sf: SourceFile) -> Dict[str, ast.expr]:
    out: Dict[str, ast.expr] = {}
    for n in sf.tree.body:
        if isinstance(n, ast.Assign) and len(n.targets) == 1 and isinstance(n.targets[0], ast.Name):
            out[n.targets[0].id] = n.value
        elif isinstance(n, ast.AnnAssign) and isinstance(n.target, ast.Name) and n.value is not None:
            out[n.target.id] = n.value
    return out


class _Subst(ast.NodeTransformer):
    def __init__(self, env: Dict[str, ast.expr], bound: set):
        self.env = env
        self.bound = bound

    def visit_Name(self, node):
        if isinstance(node.ctx, ast.Load) and node.id in self.env and node.id not in self.bound:
            return copy.deepcopy(self.env[node.id])
        return node

    def visit_Lambda(self, node):
        inner = _Subst(self.env, self.bound | {a.arg for a in node.args.args})
        node.body = inner.visit(node.body)
        return node


def _locals_of(fn: ast.FunctionDef) -> set:
    out = {a.arg for a in fn.args.args + fn.args.kwonlyargs}
    if fn.args.vararg:
        out.add(fn.args.vararg.arg)
    if fn.args.kwarg:
        out.add(fn.args.kwarg.arg)
    for n in ast.walk(fn):
        if isinstance(n, ast.Name) and isinstance(n.ctx, (ast.Store, ast.Del)):
            out.add(n.id)
    return out


def _instantiate(inner: ast.FunctionDef, env: Dict[str, ast.expr], name: str, at: ast.AST) -> ast.FunctionDef:
    new = copy.deepcopy(inner)
    bound = _locals_of(new)
    sub = _Subst(env, bound)
    new.body = [sub.visit(st) for st in new.body]
    new.name = name
    new.decorator_list = []
    for n in ast.walk(new):
        n._synthetic = True
        if hasattr(n, "lineno"):
            n._src_lineno = n.lineno
            n.lineno = getattr(at, "lineno", n.lineno)
            n.end_lineno = getattr(at, "end_lineno", n.lineno)
    ast.fix_missing_locations(new)
    return new


def _factory_products(factory: ast.FunctionDef, call: ast.Call) -> Optional[Tuple[str, List[ast.FunctionDef], Dict[str, ast.expr]]]:
    """('method', [inner], env) / ('property', [fget, fset or None], env) for `factory(*args)`; None when it has another shape."""
    params = [a.arg for a in factory.args.args]
    if any(isinstance(a, ast.Starred) for a in call.args) or len(call.args) > len(params):
        return None
    env: Dict[str, ast.expr] = {}
    for p, a in zip(params, call.args):
        env[p] = a
    for k in call.keywords:
        if k.arg is None or k.arg not in params:
            return None
        env[k.arg] = k.value
    defaults = factory.args.defaults
    for p, d in zip(params[len(params) - len(defaults):], defaults):
        env.setdefault(p, d)
    if any(p not in env for p in params):
        return None
    inner: Dict[str, ast.FunctionDef] = {}
    ret = None
    stores: Dict[str, int] = {}
    for n in ast.walk(factory):
        if isinstance(n, ast.Name) and isinstance(n.ctx, ast.Store):
            stores[n.id] = stores.get(n.id, 0) + 1
    # `if high: def fget… else: def fget…` with the test decided by the call's constant arguments: the taken branch is the body
    body = []

    def decided(t: ast.expr):
        t2 = _Subst(dict(env), set()).visit(copy.deepcopy(t))
        try:
            return bool(ast.literal_eval(t2))
        except Exception:
            if isinstance(t2, ast.UnaryOp) and isinstance(t2.op, ast.Not):
                v = decided(t2.operand)
                return None if v is None else not v
            return None

    def flatten(stmts):
        for st in stmts:
            if isinstance(st, ast.If):
                v = decided(st.test)
                if v is None:
                    body.append(st)
                else:
                    flatten(st.body if v else st.orelse)
            else:
                body.append(st)
    flatten(factory.body)
    # inner names must now be defined once
    dnames = [st.name for st in body if isinstance(st, ast.FunctionDef)]
    if len(dnames) != len(set(dnames)):
        return None
    for st in body:
        if isinstance(st, ast.FunctionDef):
            inner[st.name] = st
        elif isinstance(st, ast.Assign) and len(st.targets) == 1 and isinstance(st.targets[0], ast.Name) and stores.get(st.targets[0].id) == 1:
            # a once-assigned local of the factory (`codec = Struct(fmt)`) is part of the closure
            env[st.targets[0].id] = _Subst(dict(env), set()).visit(copy.deepcopy(st.value))
        elif isinstance(st, ast.Return):
            ret = st.value
        elif isinstance(st, ast.Expr) and isinstance(st.value, ast.Constant):
            continue
        elif isinstance(st, ast.Assign) and all(isinstance(t, ast.Attribute) and t.attr in ("__doc__", "__name__", "__qualname__") for t in st.targets):
            continue
        else:
            return None
    if isinstance(ret, ast.Name) and ret.id in inner:
        return "method", [inner[ret.id]], env
    if isinstance(ret, ast.Call) and norm(ret.func) == "property" and 1 <= len(ret.args) <= 2 and all(isinstance(a, ast.Name) and a.id in inner for a in ret.args):
        fs = [inner[a.id] for a in ret.args]
        return "property", fs + [None] * (2 - len(fs)), env
    return None


def _install(ci: ClassInfo, name: str, kind: str, fns: List[Optional[ast.FunctionDef]], env, at: ast.AST) -> None:
    if kind == "method":
        ci.methods[name] = _instantiate(fns[0], env, name, at)
        ci.assigns.pop(name, None)
        if name in ci.order:
            ci.order.remove(name)
    else:
        ci.getters[name] = _instantiate(fns[0], env, name, at)
        if fns[1] is not None:
            ci.setters[name] = _instantiate(fns[1], env, name, at)
        ci.assigns.pop(name, None)
        if name in ci.order:
            ci.order.remove(name)


def _const_text(e: ast.expr, env: Dict[str, ast.expr], names: Dict[str, str]) -> Optional[str]:
    if isinstance(e, ast.Constant) and isinstance(e.value, str):
        return e.value
    if isinstance(e, ast.Name) and e.id in env:
        return _const_text(env[e.id], env, names)
    if isinstance(e, ast.JoinedStr):
        out = ""
        for v in e.values:
            if isinstance(v, ast.Constant):
                out += str(v.value)
            elif isinstance(v, ast.FormattedValue) and v.format_spec is None and v.conversion == -1:
                t = _const_text(v.value, env, names)
                if t is None:
                    return None
                out += t
            else:
                return None
        return out
    if isinstance(e, ast.BinOp) and isinstance(e.op, ast.Add):
        a, b = _const_text(e.left, env, names), _const_text(e.right, env, names)
        return a + b if a is not None and b is not None else None
    if isinstance(e, ast.Attribute) and e.attr == "__name__" and isinstance(e.value, ast.Name) and e.value.id in names:
        return names[e.value.id]
    if isinstance(e, ast.Call) and isinstance(e.func, ast.Attribute) and e.func.attr == "format" and not e.keywords:
        base = _const_text(e.func.value, env, names)
        args = [_const_text(a, env, names) for a in e.args]
        if base is not None and all(a is not None for a in args):
            try:
                return base.format(*args)
            except Exception:
                return None
    return None


def _table_rows(e: ast.expr, assigns: Dict[str, ast.expr]) -> Optional[List[ast.expr]]:
    """The rows a module-level loop iterates, as expressions: a tuple/list display, or `.items()` of a dict display."""
    if isinstance(e, ast.Name) and e.id in assigns:
        return _table_rows(assigns[e.id], assigns)
    if isinstance(e, (ast.Tuple, ast.List)) and not any(isinstance(x, ast.Starred) for x in e.elts):
        return list(e.elts)
    if isinstance(e, ast.Call) and isinstance(e.func, ast.Attribute) and e.func.attr == "items" and not e.args:
        d = e.func.value
        if isinstance(d, ast.Name) and d.id in assigns:
            d = assigns[d.id]
        if isinstance(d, ast.Dict) and all(k is not None for k in d.keys):
            return [ast.Tuple(elts=[k, v], ctx=ast.Load()) for k, v in zip(d.keys, d.values)]
    if isinstance(e, ast.Call) and norm(e.func) in ("sorted", "list", "tuple") and len(e.args) == 1 and not e.keywords:
        return _table_rows(e.args[0], assigns)
    return None


def _bind(target: ast.expr, value: ast.expr, env: Dict[str, ast.expr]) -> bool:
    if isinstance(target, ast.Name):
        env[target.id] = value
        return True
    if isinstance(target, (ast.Tuple, ast.List)) and isinstance(value, (ast.Tuple, ast.List)) and len(target.elts) == len(value.elts):
        return all(_bind(t, v, env) for t, v in zip(target.elts, value.elts))
    return False


def synthesize(repo: Repo) -> int:
    """Register generated members in the class model; returns how many were added."""
    added = 0
    for sf in repo.files.values():
        if not sf.modname.startswith(("rv", "genrv")):
            continue
        funcs = _module_functions(sf)
        assigns = _module_assigns(sf)
        classes = {c.qualname: c for cs in repo.classes.values() for c in cs if c.file is sf}
        # (1)/(2) class-body assignments
        for ci in list(classes.values()):
            for name, val in list(ci.assigns.items()):
                if not isinstance(val, ast.Call):
                    continue
                f = norm(val.func)
                if f in funcs:
                    prod = _factory_products(funcs[f], val)
                    if prod is not None:
                        _install(ci, name, prod[0], prod[1], prod[2], ci.assign_stmts.get(name, val))
                        added += 1
                elif f.split(".")[-1] == "partialmethod" and val.args and isinstance(val.args[0], ast.Name) and val.args[0].id in ci.methods \
                        and not val.keywords:
                    base = ci.methods[val.args[0].id]
                    ps = [a.arg for a in base.args.args]
                    fixed = val.args[1:]
                    if ps and ps[0] == "self" and len(fixed) <= len(ps) - 1 and not any(isinstance(a, ast.Starred) for a in fixed):
                        env = {p: a for p, a in zip(ps[1:], fixed)}
                        new = _instantiate(base, {}, name, ci.assign_stmts.get(name, val))
                        keep = [a for a in new.args.args if a.arg not in env]
                        drop_n = len(new.args.args) - len(keep)
                        new.args.args = keep
                        if new.args.defaults and len(new.args.defaults) > len(keep) - 1:
                            new.args.defaults = new.args.defaults[drop_n:] if drop_n < len(new.args.defaults) else []
                        sub = _Subst(env, _locals_of(new) - set(env))
                        new.body = [sub.visit(st) for st in new.body]
                        ci.methods[name] = new
                        ci.assigns.pop(name, None)
                        if name in ci.order:
                            ci.order.remove(name)
                        added += 1
        # (3) module-level installation loops
        for node in sf.tree.body:
            if not isinstance(node, ast.For) or node.orelse:
                continue
            rows = _table_rows(node.iter, assigns)
            if rows is None:
                continue
            for row in rows:
                env: Dict[str, ast.expr] = {}
                if not _bind(node.target, row, env):
                    break
                names: Dict[str, str] = {}
                for st in node.body:
                    if isinstance(st, ast.Assign) and len(st.targets) == 1 and isinstance(st.targets[0], ast.Name):
                        env[st.targets[0].id] = _Subst(dict(env), set()).visit(copy.deepcopy(st.value))
                    elif isinstance(st, ast.Assign) and len(st.targets) == 1 and isinstance(st.targets[0], ast.Attribute) \
                            and st.targets[0].attr == "__name__" and isinstance(st.targets[0].value, ast.Name):
                        t = _const_text(st.value, env, names)
                        if t is not None:
                            names[st.targets[0].value.id] = t
                    elif isinstance(st, ast.Expr) and isinstance(st.value, ast.Call) and norm(st.value.func) == "setattr" and len(st.value.args) == 3:
                        cls_e, name_e, fn_e = st.value.args
                        ci = classes.get(norm(cls_e))
                        nm = _const_text(name_e, env, names)
                        fn_e = _Subst(dict(env), set()).visit(copy.deepcopy(fn_e))
                        if ci is None or nm is None or not isinstance(fn_e, ast.Call) or norm(fn_e.func) not in funcs:
                            continue
                        prod = _factory_products(funcs[norm(fn_e.func)], fn_e)
                        if prod is not None:
                            _install(ci, nm, prod[0], prod[1], prod[2], st)
                            added += 1
    return added
