claim("C13", "translation_validation",
      "All 43 generated base classes are compared field by field (3221 fields: header, 103 enums, 502 controllers, 49 options, 11 array chunks) with the class model the YAML specification implies; registry and numbering rules make the comparison meaningful at import time. Any divergence is listed individually.",
      "trusted: PyYAML, Python ast, the checker's re-implementation of the template semantics and of enumname (cross-checked against genrv/tools/generate.py)",
      "translation validation: YAML spec vs AST of generated classes", "DESIGN.md §4 C13")
for _p in ["C01","C02","C03","C04","C05","C06","C07","C08","C09","C10","C11","C12","C14","C15","C16","C17","C18","C19","C20"]:
    NA[_p] = "static rule set designed (DESIGN.md §4) but not yet built in this commit; no verdict is claimed"
claim("C12", "proof",
      "Every packed-word accessor (4 note sub-fields, 6 visualization sub-fields) and both packer/unpacker pairs (SMII, SFGS) are evaluated in a per-bit abstract domain with the old word and the new value as opaque terms: each obligation (read-back = new value masked to the field width; all other bits = old; fields disjoint and equal to the YAML member table) is discharged for all 2^32 old words x all new values at once. Note.raw_data format/order parity and the row-major offset polynomial of Pattern.raw_data are decided exactly.",
      "trusted: the bit-domain transfer functions (sa/bits.py), Python ast; run-time enum validity of enumerated parts is a precondition, not decided",
      "bit-vector abstract interpretation + polynomial identity", "DESIGN.md §4 C12")
claim("C18", "proof",
      "Single-writer census of the strictness global over all 134 files; symbolic-value dataflow over the context manager's CFG (with exception edges) shows the global equals its entry value at every exit; typestate dataflow over read_sunvox_file shows the path-opened file is closed on every normal and exceptional exit and that the load runs inside the override; every reader construction and nested load goes through the guarded entry. Exception edges over-approximate every crash point, so the fault/crash quantifier is covered without enumerating faults.",
      "trusted: sa/cfg.py CFG construction, contextlib.contextmanager semantics, 'close() releases even if it raises'",
      "typestate dataflow on a CFG with exception edges + who-may-write census", "DESIGN.md §4 C18")
for _p in ["C12", "C18"]:
    NA.pop(_p, None)
claim("C19", "other",
      "Commit-at-end on the CFG with exception edges: the single store to the pattern contents lies on every normal path, no user-supplied call is reachable after it, the failure edge of every user call reaches no commit, the working copy's depth covers the store depth, and every function that installs contents establishes note.pattern = self for all installed notes. Every failure position is covered because each user call carries an exception edge; only the user callable's own behaviour is outside the claim.",
      "trusted: sa/cfg.py, copy-depth table of DESIGN Appendix B",
      "CFG dominance/reachability + copy-depth vs store-depth + ownership establishment", "DESIGN.md §4 C19")
claim("C07", "other",
      "Project.connect is analysed path by path: no early exit from or partial iteration of the operand loops, no loop-carried local between pair iterations, the four parallel tables mutated pairwise and on both ends on every path, cross-referencing slot values proved in a list-length symbolic domain, ownership look-ups dominating all mutations, an optional link position (index-or-None helper) never tested by truth value; operator siblings compared; census of every link-table writer in rv. The per-operation obligations give the reachable-state invariant by induction; equality of the connection set with an arbitrary request sequence depends on list contents and is declined.",
      "trusted: sa/cfg.py path enumeration, list.append/index semantics",
      "path enumeration over a CFG + list-length symbolic domain + who-may-write census", "DESIGN.md §4 C07")
for _p in ["C07", "C19"]:
    NA.pop(_p, None)
claim("C14", "other",
      "Census of every writer of module index/parent, pattern owner and the project's module/pattern lists across all files; all 25 paths of attach_module enumerated: index = insertion position and parent = project on every inserting path, gap-fill decision exactly `not loading and None in modules`, refusal and already-attached cases before any mutation; attach_pattern refusal precedes mutation; Output at position 0 on construction and on load; Note.mod / module_index / Module.__int__ affine inverse. Reachable-state coherence follows inductively from these per-operation obligations.",
      "trusted: sa/cfg.py path enumeration and dominators; list.index / list.append semantics",
      "who-may-write census + path enumeration with dominating-condition extraction + affine identities", "DESIGN.md §4 C14")
NA.pop("C14", None)
claim("C01", "other",
      "The project writer's 68 chunk rows and the 78 handlers of the four section readers are extracted from the AST and compared row by row (payload shape, struct format, signedness against YAML bounds, source attribute = target attribute, reverse direction, omission guard = reader-side default, text truncation vs decoder strictness, PEND/SEND on every slot path, clone = write-then-read); packed words SFGS/SMII in the bit domain. For scalar pack/unpack rows with equal formats the agreement is sufficient per field; whole-project value equality is declined.",
      "trusted: struct pack/unpack inverse for equal formats; sa/codec.py row extraction (unrecognised yields are reported, never skipped)",
      "sibling-table cross-check (writer vs reader codec rows) + CFG path check for slot terminators", "DESIGN.md §4 C01")
NA.pop("C01", None)
claim("C16", "other",
      "The sampler's fixed-layout records are extracted as slot sequences from the writer, the reader and the interleaved C-struct comments and compared slot by slot (35+11 slots: width, signedness, field, struct size); raw writes sized by a length-interval evaluator; flag byte and envelope bitmask in the bit domain; panning / envelope-y / CHNM numbering as affine (floor-division aware) inverse pairs; lookup tables as inverse maps; envelope chunk numbers dispatch to the attributes they were written from. PCM payload bytes are passed through (field pairing shown, values not decoded).",
      "trusted: sa/layout.py slot extraction and length intervals; the struct comments as the record's declared layout",
      "record-layout extraction + three-way sibling comparison + bit/affine domains", "DESIGN.md §4 C16")
claim("C06", "other",
      "Census over 47 writer functions and 113 load-time functions: an attribute a writer emits that only load-time code fills with raw file bytes (or that no constructor/setter defines) is a replay path; the single known one (Sampler.legacy_chunks) is proved unreachable for current-format input by folding the legacy predicate and evaluating it on the length of the record this library writes and on the reader's own full layout (both from the layout engine), with the signature constant shared by writer and reader.",
      "trusted: naming convention for writer/load-time functions; sa/layout.py record lengths",
      "taint-style who-assigns census + predicate folding on layout-derived lengths", "DESIGN.md §4 C06")
for _p in ["C06", "C16"]:
    NA.pop(_p, None)
claim("C02", "other",
      "Stand-alone vs in-project writers compared as normalised row sequences (CVAL over the attached list, CMID over the same list, CHNK + specialised under the same guard); empty-synth refusal dominates all output; for all 11 classes with specialised chunks every writable chunk number (39 representative numbers incl. interval endpoints) is dispatched by load_chunk into the attribute it was written from, and every dispatched number is written; array-chunk codec constants; unit controllers before dependants under the reversed CVAL application; clone = write-then-read; drawn-waveform sign extension and omission/default; module header rows against ModuleReader; get_raw/set_raw paths, range inverse pairs and option pack/unpack shared from C05/C10/C11.",
      "trusted: sa/chnm.py chunk-number interpreter (unmodelled writer constructs are reported as inconclusive), struct inverse",
      "sibling comparison + chunk-number set containment + codec constant checks", "DESIGN.md §4 C02")
claim("C03", "other",
      "The writer's chunk table is checked against the RST format document and the YAML spec as independent oracles: per chunk id the layout must equal at least one source (58 rows), documented domains must be representable, documented chunks must all be written, emission order must contain both documented orders; container framing; SNAM = 32 by length-interval analysis, note cell = 8, CMID entry = 8 with documented field positions, PICO = 32; every writable CHNM < declared CHNK for 11 classes; sampler record = 400 bytes and 10 documented offsets. Symmetric writer/reader errors are visible because the oracle is the documentation.",
      "trusted: RST/YAML as the description of the format (errata are listed, not hidden); sa/docs.py table parser",
      "documentation-vs-code table diff + byte-length interval analysis", "DESIGN.md §4 C03")
claim("C05", "other",
      "Def-use over the CFG of set_raw/get_raw proves the stored value reaches the store only through from_raw_value on every path (incl. the lenient branch) and get_raw returns to_raw_value(attribute), which with C10's affine inverse gives get_raw(set_raw(r)) = r for all r; effect analysis over the 97-function call graph of save finds no store to / in-place mutation of public non-fresh state and no nondeterminism source; loading runs lenient; a value-dependent-elision rule (R6) reports every chunk the writer omits under a test on run-time values whose reader rebuilds it from another quantity (one instance on this tree, SLnK, recorded as a known finding with its witness). n-fold idempotence for arbitrary files beyond these structural clauses depends on run-time values and is declined.",
      "trusted: class-hierarchy call resolution (over-approximate), freshness idioms of DESIGN Appendix B",
      "def-use must-pass-through + call-graph effect analysis", "DESIGN.md §4 C05")
claim("C10", "proof",
      "For each of the four range kinds, to_raw_value/from_raw_value are folded to affine forms under every sign/threshold case of the minimum and the identities to(v) = v − min (min < 0) / v, from∘to = id are discharged by exact polynomial equality (12 obligations, all values at once); pattern_value is normalised as a rational function on each of its 3 paths and compared with (v − min)·32768/(max − min) resp. v − min; get_raw/set_raw pass through the pair on every path; DependentRange.parent selects by the unit value. IEEE rounding of the float expression is declined.",
      "trusted: sa/alg.py exact polynomial/rational arithmetic; ranges satisfy min ≤ max (checked over 603 controllers)",
      "symbolic proof in an affine/rational domain with sign-case splitting", "DESIGN.md §4 C10")
claim("C11", "proof",
      "All 49 options of the 5 option-bearing classes: bit ranges disjoint and inside their byte; options_chunks∘load_options instantiated per option and evaluated in the bit domain — each read-back equals its own value masked to `size` and depends on no other option (49 obligations for all values of all options at once); record length covers the highest byte; descriptor algebra (inversion, exclusivity symmetry, clamp, bounds fit); declared bounds present on the generated class (spec diff).",
      "trusted: sa/bits.py transfer functions; generated class constants folded from the AST",
      "bit-vector abstract interpretation instantiated per option + spec diff", "DESIGN.md §4 C11")
for _p in ["C02", "C03", "C05", "C10", "C11"]:
    NA.pop(_p, None)
claim("C09", "other",
      "Name-collision rule over all 43 classes x 652 controller/option names against the 46 attribute names type-independent code touches on a module object; census of every controller_values store (5 sites) and the set → propagate → set_initial chain; on the CFG of set_initial every path to the store passes validation or the strict-mode raise; Range.validate rejects exactly v < min or v > max; 502 controller defaults/bounds equal the YAML (spec diff); constructor overrides of controllers chased to constants and compared with the spec default; numbering from 1 in definition order.",
      "trusted: data-descriptor precedence in Python attribute assignment; sa/cfg.py; the spec diff of C13",
      "name-set disjointness + who-may-write census + CFG gate analysis + spec diff", "DESIGN.md §4 C09")
claim("C20", "other",
      "Structural clauses only: tuple arity from every construction site to the Mapping constructor's destructuring; on the CFG of macro() both refusals dominate the creation of the module, the bound equals MappingArray.length, and the link statement (MultiCtl as source) is on every non-raising path; in on_value_changed the controller look-up and the target write are dominated by a non-zero test of mapping.controller. The numeric clause (range containment and monotonicity of convert_value over five run-time parameters in float arithmetic) is declined, not enumerated.",
      "trusted: sa/cfg.py dominators; tuple-unpacking semantics",
      "tuple-arity flow + CFG dominance", "DESIGN.md §4 C20")
for _p in ["C09", "C20"]:
    NA.pop(_p, None)
claim("C04", "other",
      "On the CFG of Reader.process_chunks the no-handler branch leads only to the next chunk (log statements only) and all 3 overrides delegate; 57 reader handlers compared with the RST/YAML layouts (width, count, byte order, signed bounds) and every documented chunk has a handler; section readers end in raise ReaderFinished on every normal path and rewind by exactly the header size write_chunk emits; loading=True at every reader attach site, append-only under loading (all attach_module paths), empty SEND appends None, only trailing empties stripped; short CVAL lists touch only named controllers; legacy fix-ups present. Decoding arbitrary foreign byte streams is declined.",
      "trusted: vendored chunk iterator; RST/YAML as format description; sa/cfg.py",
      "CFG branch analysis + documentation-vs-reader table diff + call-site census", "DESIGN.md §4 C04")
claim("C08", "other",
      "NARROW: decides table format and write discipline only — equality of the reconstructed graph/slot order with the saved one depends on the run-time graph shape and is not decided. Checked necessary conditions: SLNK/SLnK codec rows and elision guard; every path through one link of the end-of-file rebuild keeps each pair of parallel tables in step with cross-referencing values proved in the list-length domain (pass 1: 3 path shapes, pass 2: 7); census of all link-table writers.",
      "trusted: sa/cfg.py path enumeration; C07's per-operation consistency of the state being saved",
      "codec row parity + per-path parallel-table discipline", "DESIGN.md §4 C08")
claim("C15", "other",
      "NARROW: positional coupling only — value-type re-derivation and the stored user-controller values are not decided. The three sites naming the 96 user-defined controllers agree in name, order and numbering after the 5 generated controllers; label numbering 8+i ↔ chnm−8 and chnk = 8+MAX; embedded project via Project.read() / read_sunvox_file (recursion, C18 guard inherited); attach state written only by attach/detach and derived as 'first n'; reader recomputes attachment before applying values; module-row parity, raw inverse, option packing and sibling writers shared from C01/C05/C10/C11/C02.",
      "trusted: ModuleMeta definition-order numbering (C13); sa/alg.py",
      "three-site agreement + affine pair + census", "DESIGN.md §4 C15")
claim("C17", "other",
      "Census of 60 class-level and 2 module-level mutable values; 72 loads of class-level mutables (through self/cls/class name, in own and inherited methods, per subclass context) classified as read / copy / store / mutate / alias; class-level containers that are mutated anywhere (directly or via alias) must be re-bound per instance; class-level containers of stateful objects; constructors binding instance state to module-level objects; attributes mutated through self must be fresh per instance and subclass constructors must reach the base constructor; no mutable default arguments (28 scanned); descriptor objects from per-class tables written only by the metaclass (positive fixture kept); module registry writers frozen; clone() = load of freshly written bytes.",
      "trusted: sharing arises only from class attributes, module globals, default arguments or explicit aliasing",
      "escape analysis of class-/module-level mutables + freshness census", "DESIGN.md §4 C17")
for _p in ["C04", "C08", "C15", "C17"]:
    NA.pop(_p, None)
