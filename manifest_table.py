claim("C13", "translation_validation",
      "All 43 generated base classes are compared field by field (3221 fields: header, 103 enums, 502 controllers, 49 options, 11 array chunks) with the class model the YAML specification implies; registry and numbering rules make the comparison meaningful at import time. Any divergence is listed individually.",
      "trusted: PyYAML, Python ast, the checker's re-implementation of the template semantics and of enumname (cross-checked against genrv/tools/generate.py)",
      "translation validation: YAML spec vs AST of generated classes", "DESIGN.md §4 C13")
for _p in ["C01","C02","C03","C04","C05","C06","C07","C08","C09","C10","C11","C12","C14","C15","C16","C17","C18","C19","C20"]:
    NA[_p] = "static rule set designed (DESIGN.md §4) but not yet built in this commit; no verdict is claimed"
