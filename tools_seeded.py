#!/venv/bin/python
"""Evaluate seeded changes: confirm each (tests pass, demo fails with / passes without) and run the checks on it.

usage: tools_seeded.py confirm <dir-with-patch.diff>...     -> confirmation in a scratch worktree of /repo
       tools_seeded.py check   <dir-with-patch.diff>...     -> run all 20 quick checks on a scratch copy with the patch
       tools_seeded.py table                                 -> run `check` over /verif/seeded/* and print the matrix
"""
import json
import os
import shutil
import subprocess
import sys
import tempfile
from concurrent.futures import ThreadPoolExecutor
from pathlib import Path

VERIF = Path(__file__).resolve().parent
sys.path.insert(0, str(VERIF))
from sa import selftest  # noqa: E402

PROPS = [f"C{n:02d}" for n in range(1, 21)]
PYTEST = ["-m", "pytest", "-q", "-p", "no:cacheprovider", "--continue-on-collection-errors", "-x", "--timeout=900"]


def sh(cmd, cwd=None, env=None, timeout=900):
    p = subprocess.run(cmd, cwd=cwd, env=env, capture_output=True, text=True, timeout=timeout)
    return p.returncode, p.stdout + p.stderr


def confirm(d: Path) -> dict:
    d = Path(d)
    patch = d / "patch.diff"
    demo = next((p for p in [d / "demo.py"] + sorted(d.glob("demo*")) + sorted(d.glob("test*.py")) if p.exists()), None)
    out = {"dir": str(d), "ok": False}
    wt = Path(tempfile.mkdtemp(prefix="rvseed-")) / "wt"
    try:
        rc, o = sh(["git", "-C", "/repo", "worktree", "add", "-q", "--detach", str(wt), "HEAD"])
        if rc:
            out["error"] = "worktree: " + o[-300:]
            return out
        env = dict(os.environ, PYTHONPATH=str(wt / "src/python"))
        rc0, o0 = sh(["/venv/bin/python", str(demo)], cwd=wt, env=env)
        out["demo_clean_rc"] = rc0
        rc, o = sh(["git", "apply", str(patch)], cwd=wt)
        if rc:
            out["error"] = "apply: " + o[-300:]
            return out
        rct, ot = sh(["/venv/bin/python"] + [a for a in PYTEST if a != "-x"], cwd=wt, env=env)
        tail = [l for l in ot.splitlines() if "passed" in l or "failed" in l][-1:] or [ot[-200:]]
        out["tests"] = tail[0]
        out["tests_ok"] = "170 passed" in tail[0] and "failed" not in tail[0]
        rc1, o1 = sh(["/venv/bin/python", str(demo)], cwd=wt, env=env)
        out["demo_patched_rc"] = rc1
        out["demo_patched_tail"] = o1.strip().splitlines()[-1][:200] if o1.strip() else ""
        out["ok"] = out["tests_ok"] and rc0 == 0 and rc1 != 0
    finally:
        sh(["git", "-C", "/repo", "worktree", "remove", "--force", str(wt)])
        shutil.rmtree(wt.parent, ignore_errors=True)
    return out


def check(d: Path, props=PROPS) -> dict:
    d = Path(d)
    work = Path(tempfile.mkdtemp(prefix="rvseedchk-"))
    res = {"dir": str(d), "fired": [], "undecided": [], "lines": {}}
    try:
        selftest.make_copy(work)
        rc, o = sh(["git", "apply", "--include=src/python/*", "--include=specs/*", "--include=docs/*", str((d / "patch.diff").resolve())], cwd=work)
        if rc:
            res["error"] = "apply: " + o[-300:]
            return res
        env = dict(os.environ, RV_VERIF_REPO=str(work), RV_VERIF_EVIDENCE_DIR=str(work / "_ev"))

        def one(p):
            rc, o = sh(["/venv/bin/python", str(VERIF / "sa/check.py"), p, "--tier", "quick"], cwd=VERIF, env=env)
            return p, rc, o
        with ThreadPoolExecutor(max_workers=10) as ex:
            for p, rc, o in ex.map(one, props):
                if rc == 1:
                    res["fired"].append(p)
                    res["lines"][p] = [l.strip() for l in o.splitlines() if l.strip().startswith(("rule=", "why:"))][:4]
                elif rc == 2:
                    res["undecided"].append(p)
                    res["lines"][p] = [l.strip()[:240] for l in o.splitlines() if l.startswith("ANALYSIS")][:2]
    finally:
        shutil.rmtree(work, ignore_errors=True)
    return res


def main():
    cmd = sys.argv[1]
    if cmd == "confirm":
        for a in sys.argv[2:]:
            print(json.dumps(confirm(Path(a))))
    elif cmd == "check":
        for a in sys.argv[2:]:
            r = check(Path(a))
            print(json.dumps({k: v for k, v in r.items() if k != "lines"}))
            for p, ls in r.get("lines", {}).items():
                for l in ls:
                    print("   ", p, l[:260])
    elif cmd == "twin-import":
        # twin-import <srcdir> <name>: confirm behaviour preservation (tests + check.py on clean and patched tree), copy to /verif/twins/<name>
        src, name = Path(sys.argv[2]), sys.argv[3]
        wt = Path(tempfile.mkdtemp(prefix="rvtwin-")) / "wt"
        res = {"dir": str(src), "ok": False}
        try:
            rc, o = sh(["git", "-C", "/repo", "worktree", "add", "-q", "--detach", str(wt), "HEAD"])
            env = dict(os.environ, PYTHONPATH=str(wt / "src/python"))
            chk = src / "check.py"
            rc0, o0 = sh(["/venv/bin/python", str(chk)], cwd=wt, env=env, timeout=1800)
            rc, o = sh(["git", "apply", str((src / "patch.diff").resolve())], cwd=wt)
            if rc:
                res["error"] = "apply: " + o[-200:]
            else:
                rct, ot = sh(["/venv/bin/python"] + [a for a in PYTEST if a != "-x"], cwd=wt, env=env)
                tail = [l for l in ot.splitlines() if "passed" in l or "failed" in l][-1:] or [ot[-200:]]
                rc1, o1 = sh(["/venv/bin/python", str(chk)], cwd=wt, env=env, timeout=1800)
                res.update(tests=tail[0], check_clean_rc=rc0, check_patched_rc=rc1)
                res["ok"] = "170 passed" in tail[0] and "failed" not in tail[0] and rc0 == 0 and rc1 == 0
        finally:
            sh(["git", "-C", "/repo", "worktree", "remove", "--force", str(wt)])
            shutil.rmtree(wt.parent, ignore_errors=True)
        if not res["ok"]:
            print("NOT CONFIRMED", json.dumps(res))
            sys.exit(1)
        dst = VERIF / "twins" / name
        dst.mkdir(parents=True, exist_ok=True)
        for f in src.iterdir():
            if f.is_file() and f.stat().st_size < 300_000:
                shutil.copy(f, dst / f.name)
        meta = json.loads((dst / "meta.json").read_text()) if (dst / "meta.json").exists() else {}
        meta["anchored_in"] = meta.pop("property", name.split("-")[-2] if "-" in name else "")
        meta["confirmed"] = {"by": "tools_seeded.py twin-import (scratch worktree of /repo HEAD)", "tests": res["tests"].strip("= "),
                             "check_on_clean_tree": "exit 0", "check_with_patch": "exit 0"}
        meta["origin"] = "independent sub-agent asked for a behaviour-preserving refactoring of the property's anchors"
        (dst / "meta.json").write_text(json.dumps(meta, indent=1))
        print("imported twin", name)
    elif cmd == "import":
        # import <srcdir> <newname>: confirm, copy under /verif/seeded/<newname>, augment meta.json
        src, name = Path(sys.argv[2]), sys.argv[3]
        c = confirm(src)
        if not c["ok"]:
            print("NOT CONFIRMED", json.dumps(c))
            sys.exit(1)
        dst = VERIF / "seeded" / name
        dst.mkdir(parents=True, exist_ok=True)
        for f in src.iterdir():
            if f.is_file() and f.stat().st_size < 200_000:
                shutil.copy(f, dst / f.name)
        meta = json.loads((dst / "meta.json").read_text()) if (dst / "meta.json").exists() else {}
        meta.setdefault("property", name[:3])
        head = sh(["git", "-C", "/repo", "rev-parse", "--short", "HEAD"])[1].strip()
        meta["confirmed"] = {"by": f"tools_seeded.py confirm (scratch worktree of /repo HEAD {head})",
                             "tests": c["tests"].strip("= "), "demo_on_clean_tree": f"exit {c['demo_clean_rc']}",
                             "demo_with_patch": f"exit {c['demo_patched_rc']}"}
        meta["origin"] = sys.argv[4] if len(sys.argv) > 4 else "independent sub-agent given only the property record and a scratch worktree"
        (dst / "meta.json").write_text(json.dumps(meta, indent=1))
        print("imported", name)
    elif cmd == "table":
        rows = []
        only = sys.argv[2:]
        prev = {}
        if only and (VERIF / "seeded" / "RESULTS.json").exists():
            prev = {r[0]: r for r in json.load(open(VERIF / "seeded" / "RESULTS.json"))}
        for d in sorted((VERIF / "seeded").iterdir()):
            if not (d / "patch.diff").exists():
                continue
            if only and not any(o in d.name for o in only):
                if d.name in prev:
                    rows.append(tuple(prev[d.name]))
                continue
            meta = json.loads((d / "meta.json").read_text()) if (d / "meta.json").exists() else {}
            r = check(d)
            target = meta.get("property", d.name[:3])
            hit = target in r["fired"]
            rows.append((d.name, target, "CAUGHT" if hit else ("undecided" if target in r["undecided"] else "MISSED"), r["fired"], r["undecided"]))
            print(f"{d.name:12s} target={target} {rows[-1][2]:9s} fired={r['fired']} undecided={r['undecided']}", flush=True)
            if meta:
                meta["checks_run"] = {"command": "tools_seeded.py check (all 20 quick checks on a scratch copy of /repo with the patch applied)",
                                      "fired": r["fired"], "undecided": r["undecided"], "target_verdict": rows[-1][2]}
                (d / "meta.json").write_text(json.dumps(meta, indent=1))
        json.dump(rows, open(VERIF / "seeded" / "RESULTS.json", "w"), indent=1)


if __name__ == "__main__":
    main()
