#!/venv/bin/python
"""Regenerates MANIFEST.json from the table below (kept in one place so it stays valid)."""
import json, sys
from pathlib import Path

CHECKS = {}   # id -> dict(level, text, note, technique, ref)
NA = {}       # id -> reason

def claim(pid, level, text, note, technique, ref):
    CHECKS[pid] = dict(level=level, text=text, note=note, technique=technique, ref=ref)

exec(Path(__file__).with_name("manifest_table.py").read_text())

checks = []
for pid in sorted(CHECKS):
    c = CHECKS[pid]
    checks.append({
        "property_id": pid,
        "quick_cmd": f"/venv/bin/python sa/check.py {pid} --tier quick",
        "thorough_cmd": f"/venv/bin/python sa/check.py {pid} --tier thorough",
        "evidence_file": f"evidence/{pid}.json",
        "replay_cmd_template": f"/venv/bin/python sa/check.py {pid} --replay {{path}}",
        "engine": "sa",
        "level_claimed": {"category": c["level"], "text": c["text"], "design_ref": c["ref"]},
        "level_note": c["note"],
        "technique": c["technique"],
    })
manifest = {
    "version": 1,
    "setup_cmd": "/venv/bin/python -m compileall -q sa",
    "hooks": {
        "guard": "RV_VERIF",
        "enable": "no source hooks: the checks parse /repo's working tree with ast and never import or run it",
        "baseline_off_cmd": "cd /repo && /venv/bin/python -m pytest -ra -q -p no:cacheprovider --timeout=900 --continue-on-collection-errors",
        "source_commits": [],
        "add_only": True,
    },
    "engines": [{"name": "sa", "path": "sa/", "serves_properties": sorted(CHECKS),
                 "kind_free_text": "repository-specific static analysis over Python ast: class/MRO model, constant folding, statement CFG with exception edges, bit-vector and affine abstract domains, codec table extraction, YAML/RST table diff"}],
    "checks": checks,
    "notes": "All checks are static (ast / CFG / abstract domains); nothing in rv or genrv is imported or executed. Exit 2 = analysis inconclusive (never a verdict). See DESIGN.md.",
    "not_applicable": [{"property_id": k, "reason": v} for k, v in sorted(NA.items())],
}
Path(__file__).with_name("MANIFEST.json").write_text(json.dumps(manifest, indent=1) + "\n")
print("claimed", sorted(CHECKS), "not_applicable", sorted(NA))
